package codecs

import (
	"bytes"
	"testing"
)

// RFC 6184 section 5.8: S and E MUST NOT both be set in one FU header. Such a payload is
// refused instead of being turned into a NAL unit, and it leaves no fragment state behind.
func TestDemoH264PacketRefusesFUAWithStartAndEnd(t *testing.T) {
	pkt := H264Packet{}

	res, err := pkt.Unmarshal([]byte{0x7c, 0xc5, 0xa1, 0xa2}) // FU-A, S=1 E=1, type 5
	if err == nil {
		t.Fatalf("FU-A with S and E accepted: %x", res)
	}
	if res != nil {
		t.Fatalf("result on error: %x", res)
	}

	// a well-formed fragmented unit afterwards decodes normally
	for _, p := range [][]byte{{0x7c, 0x85, 0xb1}, {0x7c, 0x05, 0xb2}} {
		if res, err = pkt.Unmarshal(p); err != nil || len(res) != 0 {
			t.Fatalf("%x: %x %v", p, res, err)
		}
	}
	res, err = pkt.Unmarshal([]byte{0x7c, 0x45, 0xb3})
	if err != nil || !bytes.Equal(res, []byte{0, 0, 0, 1, 0x65, 0xb1, 0xb2, 0xb3}) {
		t.Fatalf("got %x %v", res, err)
	}
}
