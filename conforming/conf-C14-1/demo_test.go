package codecs

import (
	"bytes"
	"testing"
)

// A NAL unit that is exactly as long as the MTU. The original payloader splits it into two
// fragmentation units (3 extra header bytes, two packets); with the change it is sent as the single
// NAL unit packet it fits into.
func TestDemoH265ExactFitIsNotFragmented(t *testing.T) {
	const mtu = 10
	nalu := []byte{0x02, 0x01, 0x11, 0x22, 0x33, 0x44, 0x55, 0x66, 0x77, 0x88} // type 1, TID 1, 8 payload bytes
	if len(nalu) != mtu {
		t.Fatal("test vector must be exactly one MTU long")
	}

	payloads := (&H265Payloader{}).Payload(mtu, nalu)
	if len(payloads) != 1 {
		t.Fatalf("want one single NAL unit packet, got %d packets: %x", len(payloads), payloads)
	}
	if !bytes.Equal(payloads[0], nalu) {
		t.Fatalf("single NAL unit packet must be the unit itself, got %x", payloads[0])
	}

	pkt := &H265Packet{}
	if _, err := pkt.Unmarshal(payloads[0]); err != nil {
		t.Fatal(err)
	}
	if _, ok := pkt.Packet().(*H265SingleNALUnitPacket); !ok {
		t.Fatalf("want *H265SingleNALUnitPacket, got %T", pkt.Packet())
	}

	// With DONL the single NAL unit packet is two bytes longer: a unit of MTU-2 bytes fits exactly.
	payloads = (&H265Payloader{AddDONL: true}).Payload(mtu, nalu[:mtu-2])
	want := []byte{0x02, 0x01, 0x00, 0x00, 0x11, 0x22, 0x33, 0x44, 0x55, 0x66}
	if len(payloads) != 1 || !bytes.Equal(payloads[0], want) {
		t.Fatalf("DONL: want %x, got %x", want, payloads)
	}
}
