package codecs

import (
	"bytes"
	"testing"
)

// The start fragment of an IDR slice (type 5) is received, its other fragments and the start of
// the following non-IDR slice (type 1) are lost, then the end fragment of that type 1 slice arrives.
// The original glues the two halves together and emits a bogus type 1 NAL unit, the changed
// depacketizer reports an error and emits nothing. The next intact unit decodes as on a fresh one.
func TestDemoH264FUATypeMismatch(t *testing.T) {
	depacketizer := &H264Packet{}

	out, err := depacketizer.Unmarshal([]byte{0x7C, 0x85, 0xA1, 0xA2}) // FU-A, S, type 5
	if err != nil || len(out) != 0 {
		t.Fatalf("start fragment: %x %v", out, err)
	}

	out, err = depacketizer.Unmarshal([]byte{0x5C, 0x41, 0xB1, 0xB2}) // FU-A, E, type 1
	if err == nil {
		t.Fatalf("end fragment of another unit was glued to the pending one: %x", out)
	}
	if len(out) != 0 {
		t.Fatalf("output together with an error: %x", out)
	}

	// an intact fragmented unit afterwards
	frame := [][]byte{
		{0x7C, 0x85, 0x01, 0x02},
		{0x7C, 0x05, 0x03, 0x04},
		{0x7C, 0x45, 0x05, 0x06},
	}
	fresh := &H264Packet{}
	for i, pkt := range frame {
		got, gotErr := depacketizer.Unmarshal(pkt)
		want, wantErr := fresh.Unmarshal(pkt)
		if gotErr != nil || wantErr != nil || !bytes.Equal(got, want) {
			t.Fatalf("packet %d: %x (%v) != %x (%v)", i, got, gotErr, want, wantErr)
		}
		if i == 2 && !bytes.Equal(got, []byte{0, 0, 0, 1, 0x65, 1, 2, 3, 4, 5, 6}) {
			t.Fatalf("reassembled unit: %x", got)
		}
	}
}
