package codecs

import (
	"bytes"
	"testing"
)

// Originally every G711/G722 fragment is a freshly allocated copy of a piece of the input.
// With the change the fragments are windows into the caller's buffer (zero copy), which is
// observable: they share memory with the input.
func TestDemoFragmentsShareInputBuffer(t *testing.T) {
	payloaders := map[string]interface {
		Payload(mtu uint16, payload []byte) [][]byte
	}{
		"G711": &G711Payloader{},
		"G722": &G722Payloader{},
	}
	for name, p := range payloaders {
		in := []byte{0, 1, 2, 3, 4, 5, 6, 7, 8, 9}
		want := append([]byte{}, in...)

		frags := p.Payload(4, in)
		if len(frags) != 3 || len(frags[0]) != 4 || len(frags[1]) != 4 || len(frags[2]) != 2 {
			t.Fatalf("%s: unexpected split %v", name, frags)
		}
		if !bytes.Equal(bytes.Join(frags, nil), want) || !bytes.Equal(in, want) {
			t.Fatalf("%s: split is not lossless: %v", name, frags)
		}

		off := 0
		for i, f := range frags {
			if &f[0] != &in[off] {
				t.Errorf("%s: fragment %d is a copy, want a window into the input at offset %d", name, i, off)
			}
			// appending to a fragment must not clobber the samples that follow it
			_ = append(f, 0xFF)
			off += len(f)
		}
		if !bytes.Equal(in, want) {
			t.Errorf("%s: appending to a fragment modified the input: %v", name, in)
		}
	}
}
