package rtp

import "testing"

// Extension elements that the current profile cannot express (here: created under the two-byte
// profile, then ExtensionProfile switched by hand to one-byte; and a 300-octet legacy value
// relabelled as two-byte). The original encoder writes an extension block whose element headers
// overflow (length 20 written as 0x13 into the id nibble, length 300 written as 44), i.e. a corrupt
// packet, and reports success. With the change Marshal/MarshalTo refuse such a header.
func TestDemoMarshalRefusesElementsIllegalForProfile(t *testing.T) {
	var h Header
	h.Version = 2
	if err := h.SetExtension(200, make([]byte, 20)); err != nil { // selects the two-byte profile
		t.Fatal(err)
	}
	h.ExtensionProfile = 0xBEDE // ... but the caller relabels the block as one-byte

	if raw, err := h.Marshal(); err == nil {
		t.Errorf("Header.Marshal emitted id 200 / 20 octets as a one-byte element: % x", raw)
	}
	if _, err := h.MarshalTo(make([]byte, 100)); err == nil {
		t.Errorf("Header.MarshalTo accepted it")
	}
	p := Packet{Header: h, Payload: []byte{1, 2, 3}}
	if _, err := p.Marshal(); err == nil {
		t.Errorf("Packet.Marshal accepted it")
	}

	var l Header
	l.Version = 2
	l.Extension = true
	l.ExtensionProfile = 0x4242 // legacy
	if err := l.SetExtension(0, make([]byte, 300)); err != nil {
		t.Fatal(err)
	}
	l.ExtensionProfile = 0x1000
	if _, err := l.Marshal(); err == nil {
		t.Errorf("Header.Marshal emitted id 0 / 300 octets as a two-byte element")
	}

	// legal elements are still encoded
	var ok Header
	if err := ok.SetExtension(3, []byte{1, 2}); err != nil {
		t.Fatal(err)
	}
	if _, err := ok.Marshal(); err != nil {
		t.Errorf("legal one-byte element refused: %v", err)
	}
}
