package rtp

import (
	"bytes"
	"encoding/binary"
	"testing"
)

// After Del on a standalone view the block is again a whole number of 32-bit words and its
// length field says so, so it can be spliced into an RTP packet.
func TestDemoViewDelKeepsBlockAligned(t *testing.T) {
	check := func(t *testing.T, ext HeaderExtension, block []byte, val []byte) {
		t.Helper()
		if _, err := ext.Unmarshal(block); err != nil {
			t.Fatal(err)
		}
		// the well-formed block itself is decoded and re-serialised as before
		if raw, _ := ext.Marshal(); !bytes.Equal(raw, block) {
			t.Fatalf("re-serialised %x, want %x", raw, block)
		}
		if err := ext.Del(1); err != nil {
			t.Fatal(err)
		}
		raw, _ := ext.Marshal()
		if (len(raw)-4)%4 != 0 {
			t.Fatalf("block after Del is not word aligned: %x", raw)
		}
		if words := int(binary.BigEndian.Uint16(raw[2:4])); words != (len(raw)-4)/4 {
			t.Fatalf("length field says %d words, block has %d octets after its header: %x", words, len(raw)-4, raw)
		}
		if ids := ext.GetIDs(); len(ids) != 1 || ids[0] != 2 {
			t.Fatalf("ids = %v", ids)
		}

		// splice it into a packet: the packet parses, payload in place
		pkt := append([]byte{0x90, 0x60, 0, 1, 0, 0, 0, 2, 0, 0, 0, 3}, raw...)
		pkt = append(pkt, 0xCA, 0xFE)
		p := &Packet{}
		if err := p.Unmarshal(pkt); err != nil {
			t.Fatalf("packet with the block: %v", err)
		}
		if !bytes.Equal(p.Payload, []byte{0xCA, 0xFE}) || !bytes.Equal(p.GetExtension(2), val) {
			t.Fatalf("payload %x ext %x", p.Payload, p.GetExtension(2))
		}
	}
	t.Run("one-byte", func(t *testing.T) {
		check(t, &OneByteHeaderExtension{}, []byte{
			0xBE, 0xDE, 0x00, 0x03,
			0x15, 1, 2, 3, 4, 5, 6, // id 1, 6 octets
			0x20, 0x77, // id 2, 1 octet
			0x00, 0x00, 0x00,
		}, []byte{0x77})
	})
	t.Run("two-byte", func(t *testing.T) {
		check(t, &TwoByteHeaderExtension{}, []byte{
			0x10, 0x00, 0x00, 0x03,
			0x01, 0x05, 1, 2, 3, 4, 5, // id 1, 5 octets
			0x02, 0x01, 0x77, // id 2, 1 octet
			0x00, 0x00,
		}, []byte{0x77})
	})
}
