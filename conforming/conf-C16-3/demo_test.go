package codecs

import (
	"bytes"
	"testing"
)

// Originally a rejected Unmarshal leaves OpusPacket.Payload pointing at the payload of the
// previous, successfully parsed packet. With the change a rejected Unmarshal clears it.
func TestDemoOpusRejectedUnmarshalClearsPayload(t *testing.T) {
	for name, bad := range map[string][]byte{"nil": nil, "empty": {}} {
		var pkt OpusPacket

		good := []byte{0x78, 0x01, 0x02}
		out, err := pkt.Unmarshal(good)
		if err != nil || !bytes.Equal(out, good) || !bytes.Equal(pkt.Payload, good) {
			t.Fatalf("%s: valid packet not accepted unchanged: %v %v", name, out, err)
		}

		out, err = pkt.Unmarshal(bad)
		if err == nil || out != nil {
			t.Fatalf("%s: invalid packet not rejected: %v %v", name, out, err)
		}
		if pkt.Payload != nil {
			t.Errorf("%s: Payload still holds the previous packet %v after a rejected Unmarshal", name, pkt.Payload)
		}
		if !pkt.IsPartitionHead(bad) || !pkt.IsPartitionTail(false, bad) {
			t.Errorf("%s: partition head/tail not reported", name)
		}
	}
}
