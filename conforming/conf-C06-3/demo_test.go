package rtp

import (
	"testing"

	"github.com/pion/rtp/codecs"
)

// Extension id 15 cannot be carried in a one-byte header extension. Originally
// EnableAbsSendTime(15) is accepted and every later Packetize call then returns nil (after
// having consumed sequence numbers). With the change the unusable id is ignored and the
// packetizer keeps working (without the extension).
func TestDemoUnusableAbsSendTimeID(t *testing.T) {
	seq := NewFixedSequencer(7)
	p := NewPacketizer(100, 96, 0xCAFE, &codecs.G711Payloader{}, seq, 8000)
	p.EnableAbsSendTime(15)

	pkts := p.Packetize(make([]byte, 200), 160)
	if len(pkts) != 3 {
		t.Fatalf("got %d packets, want 3", len(pkts))
	}
	for i, pkt := range pkts {
		if pkt.Extension || len(pkt.GetExtensionIDs()) != 0 {
			t.Errorf("packet %d unexpectedly carries a header extension", i)
		}
		if pkt.SequenceNumber != uint16(7+i) {
			t.Errorf("packet %d has sequence number %d, want %d", i, pkt.SequenceNumber, 7+i)
		}
	}
	if got := seq.NextSequenceNumber(); got != 10 {
		t.Errorf("next sequence number is %d, want 10", got)
	}
}
