package codecs

import (
	"testing"

	"github.com/pion/rtp/codecs/vp9"
)

// bits turns a string of '0' / '1' (anything else is ignored) into bytes, MSB first.
func demoBits(s string) []byte {
	var out []byte
	n := 0
	for _, c := range s {
		if c != '0' && c != '1' {
			continue
		}
		if n%8 == 0 {
			out = append(out, 0)
		}
		if c == '1' {
			out[n/8] |= 1 << (7 - n%8)
		}
		n++
	}

	return out
}

// Profile 1 key frame, 4:4:4, 640x480. The only difference between the two frames is the
// reserved_zero bit that follows subsampling_x / subsampling_y in color_config().
func demoProfile1KeyFrame(reserved string) []byte {
	hdr := demoBits("10 1 0 0 0 1 0" + // frame_marker, profile 1, show_existing=0, key frame, show_frame, error_res
		"01001001 10000011 01000010" + // sync code 49 83 42
		"010 0 0 0 " + reserved + // color_space=2, color_range=0, ss_x=0, ss_y=0, reserved_zero
		"0000001001111111 0000000111011111" + // width-1 = 639, height-1 = 479
		"0000000")

	return append(hdr, 1, 2, 3, 4, 5, 6, 7, 8)
}

func TestDemoVP9ReservedZeroBitIsValidated(t *testing.T) {
	good, bad := demoProfile1KeyFrame("0"), demoProfile1KeyFrame("1")

	var h vp9.Header
	if err := h.Unmarshal(good); err != nil || h.Profile != 1 || h.Width() != 640 || h.Height() != 480 {
		t.Fatalf("conformant header: %v %+v", err, h)
	}
	if err := (&vp9.Header{}).Unmarshal(bad); err == nil {
		t.Error("vp9.Header.Unmarshal accepted a header whose reserved_zero bit is 1")
	}

	pck := VP9Payloader{InitialPictureIDFn: func() uint16 { return 0 }}
	if out := pck.Payload(1200, good); len(out) != 1 {
		t.Fatalf("conformant key frame: %d packets", len(out))
	}
	if out := pck.Payload(1200, bad); len(out) != 0 {
		t.Errorf("non-flexible VP9Payloader sent a frame whose header is not conformant (%d packets)", len(out))
	}
}
