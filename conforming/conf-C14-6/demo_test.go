package codecs

import "testing"

// An aggregation packet whose second aggregation unit declares a NAL unit size of 0.
// The original parser accepts it and reports an empty NAL unit, the changed parser rejects the packet.
// A regular aggregation packet is parsed as before.
func TestDemoH265AggregationRejectsEmptyUnit(t *testing.T) {
	bad := []byte{
		0x60, 0x01, // PayloadHdr, type 48
		0x00, 0x03, 0x40, 0x01, 0xAA, // unit 1: VPS
		0x00, 0x00, // unit 2: size 0
		0x00, 0x03, 0x42, 0x01, 0xBB, // unit 3: SPS
	}
	if _, err := (&H265Packet{}).Unmarshal(bad); err == nil {
		t.Fatal("aggregation packet with an empty aggregation unit was accepted")
	}
	if _, err := (&H265AggregationPacket{}).Unmarshal(bad); err == nil {
		t.Fatal("aggregation packet with an empty aggregation unit was accepted")
	}

	good := []byte{
		0x60, 0x01,
		0x00, 0x03, 0x40, 0x01, 0xAA,
		0x00, 0x03, 0x42, 0x01, 0xBB,
	}
	hp := &H265Packet{}
	if _, err := hp.Unmarshal(good); err != nil {
		t.Fatal(err)
	}
	ap, ok := hp.Packet().(*H265AggregationPacket)
	if !ok || string(ap.FirstUnit().NalUnit()) != "\x40\x01\xAA" || len(ap.OtherUnits()) != 1 ||
		string(ap.OtherUnits()[0].NalUnit()) != "\x42\x01\xBB" {
		t.Fatal("well-formed aggregation packet decoded wrongly")
	}
}
