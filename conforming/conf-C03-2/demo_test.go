package rtp

import (
	"bytes"
	"testing"
)

// Set on an id that is already present in a standalone extension view must replace its value. The
// original code splices the new value one octet too late (it keeps the first old octet and drops
// the header octet of the following element), so the old value stays visible and the following
// element is destroyed.
func TestDemoExtensionViewSetReplacesExistingValue(t *testing.T) {
	t.Run("one-byte", func(t *testing.T) {
		defer func() {
			if r := recover(); r != nil {
				t.Fatalf("panic: %v", r)
			}
		}()
		ext := &OneByteHeaderExtension{}
		if _, err := ext.Unmarshal([]byte{0xBE, 0xDE, 0x00, 0x01, 0x10, 0xAA, 0x20, 0xBB}); err != nil {
			t.Fatal(err)
		}
		if err := ext.Set(1, []byte{0xCC}); err != nil {
			t.Fatal(err)
		}
		if got := ext.Get(1); !bytes.Equal(got, []byte{0xCC}) {
			t.Errorf("Get(1) = %x, want cc", got)
		}
		if got := ext.Get(2); !bytes.Equal(got, []byte{0xBB}) {
			t.Errorf("Get(2) = %x, want bb", got)
		}
		out, _ := ext.Marshal()
		if want := []byte{0xBE, 0xDE, 0x00, 0x01, 0x10, 0xCC, 0x20, 0xBB}; !bytes.Equal(out, want) {
			t.Errorf("Marshal = %x, want %x", out, want)
		}
	})
	t.Run("two-byte", func(t *testing.T) {
		defer func() {
			if r := recover(); r != nil {
				t.Fatalf("panic: %v", r)
			}
		}()
		ext := &TwoByteHeaderExtension{}
		in := []byte{0x10, 0x00, 0x00, 0x02, 0x01, 0x01, 0xAA, 0x02, 0x01, 0xBB, 0x00, 0x00}
		if _, err := ext.Unmarshal(in); err != nil {
			t.Fatal(err)
		}
		if err := ext.Set(1, []byte{0xCC}); err != nil {
			t.Fatal(err)
		}
		if got := ext.Get(1); !bytes.Equal(got, []byte{0xCC}) {
			t.Errorf("Get(1) = %x, want cc", got)
		}
		if got := ext.Get(2); !bytes.Equal(got, []byte{0xBB}) {
			t.Errorf("Get(2) = %x, want bb", got)
		}
		out, _ := ext.Marshal()
		if want := []byte{0x10, 0x00, 0x00, 0x02, 0x01, 0x01, 0xCC, 0x02, 0x01, 0xBB, 0x00, 0x00}; !bytes.Equal(out, want) {
			t.Errorf("Marshal = %x, want %x", out, want)
		}
	})
}
