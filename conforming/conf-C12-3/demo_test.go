package codecs

import (
	"bytes"
	"testing"
)

// Flexible mode, 10-byte frame, MTU 9 (3-byte descriptor, 6 frame bytes per packet at most).
// Original: packets carry 6 + 4 bytes. Patched: 5 + 5 bytes. Same descriptor, same frame.
func TestDemoVP9FlexibleBalancedFragments(t *testing.T) {
	frame := []byte{1, 2, 3, 4, 5, 6, 7, 8, 9, 10}
	p := &VP9Payloader{FlexibleMode: true, InitialPictureIDFn: func() uint16 { return 0x7FFF }}
	pls := p.Payload(9, frame)
	if len(pls) != 2 {
		t.Fatalf("expected 2 packets, got %d", len(pls))
	}
	var got []byte
	var sizes []int
	for i, pl := range pls {
		d := &VP9Packet{}
		b, err := d.Unmarshal(pl)
		if err != nil {
			t.Fatal(err)
		}
		if !d.F || !d.I || d.PictureID != 0x7FFF || d.B != (i == 0) || d.E != (i == 1) {
			t.Fatalf("bad descriptor on packet %d: %+v", i, d)
		}
		sizes = append(sizes, len(b))
		got = append(got, b...)
	}
	if !bytes.Equal(got, frame) {
		t.Fatalf("frame not reproduced: %x", got)
	}
	if sizes[0] != 5 || sizes[1] != 5 {
		t.Fatalf("expected payload sizes 5+5, got %v", sizes)
	}
	// next frame: picture id wrapped to 0
	d := &VP9Packet{}
	if _, err := d.Unmarshal(p.Payload(9, frame)[0]); err != nil || d.PictureID != 0 {
		t.Fatalf("picture id after wrap: %d %v", d.PictureID, err)
	}
}
