package codecs

import "testing"

// When the VP9 payloader cannot produce anything (MTU too small, frame header unparsable,
// empty input) the original returns an allocated empty slice, the patch returns nil, as
// the VP8/H264/H265/AV1/G7xx payloaders do.
func TestDemoVP9PayloaderNilWhenNothingToSend(t *testing.T) {
	frame := []byte{0x82, 0x49, 0x83, 0x42, 0x00, 0x77, 0xf0, 0x32, 0x34}
	cases := map[string][][]byte{
		"flexible small MTU":     (&VP9Payloader{FlexibleMode: true}).Payload(3, frame),
		"flexible empty":         (&VP9Payloader{FlexibleMode: true}).Payload(100, nil),
		"non-flexible small MTU": (&VP9Payloader{}).Payload(11, frame),
		"non-flexible bad frame": (&VP9Payloader{}).Payload(100, []byte{0x00, 0x01, 0x02}),
	}
	for name, got := range cases {
		if got != nil {
			t.Errorf("%s: expected a nil slice, got non-nil slice of len %d", name, len(got))
		}
	}
}
