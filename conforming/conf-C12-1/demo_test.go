package codecs

import (
	"bytes"
	"testing"
)

// Layer indices octet with SID = 5..7 (a legal 3-bit value; the VP9 RTP payload format allows
// up to 8 spatial layers). Original: rejected with "too many spatial layers".
// Patched: decoded like any other SID.
func TestDemoVP9AcceptsAllSpatialIDs(t *testing.T) {
	for sid := uint8(0); sid < 8; sid++ {
		// I=1 L=1 (non-flexible), PictureID 0x02, TID=1 U=0 SID=sid D=1, TL0PICIDX=9, payload AA BB
		in := []byte{0xA0, 0x02, 0x20 | sid<<1 | 0x01, 0x09, 0xAA, 0xBB}
		p := &VP9Packet{}
		out, err := p.Unmarshal(in)
		if err != nil {
			t.Fatalf("SID %d rejected: %v", sid, err)
		}
		if p.SID != sid || p.TID != 1 || !p.D || p.U || p.TL0PICIDX != 9 || p.PictureID != 2 {
			t.Fatalf("SID %d decoded wrongly: %+v", sid, p)
		}
		if !bytes.Equal(out, []byte{0xAA, 0xBB}) {
			t.Fatalf("SID %d: payload %x", sid, out)
		}
	}
}
