package codecs

import (
	"bytes"
	"testing"
)

// FU-A start of unit A, then a complete single NAL unit (the end of A was lost), then the
// middle+end fragments of another unit B whose start was lost: the bytes collected for A
// must not be glued in front of B's fragments.
func TestDemoH264InterruptedFUADropped(t *testing.T) {
	for _, interrupt := range [][]byte{
		{0x41, 0xbb, 0xbb}, // single NAL unit
		{0x78, 0x00, 0x02, 0x67, 0x01, 0x00, 0x02, 0x68, 0x02}, // STAP-A
	} {
		pkt := H264Packet{}

		res, err := pkt.Unmarshal([]byte{0x7c, 0x85, 0xa1, 0xa2}) // FU-A, S=1, type 5
		if err != nil || len(res) != 0 {
			t.Fatalf("start fragment: %x %v", res, err)
		}
		if _, err = pkt.Unmarshal(interrupt); err != nil {
			t.Fatal(err)
		}
		res, err = pkt.Unmarshal([]byte{0x7c, 0x45, 0xb1, 0xb2}) // FU-A, E=1, type 5
		if err != nil {
			t.Fatal(err)
		}
		if bytes.Contains(res, []byte{0xa1, 0xa2}) {
			t.Fatalf("fragment of the interrupted unit leaked into %x", res)
		}
		if want := []byte{0, 0, 0, 1, 0x65, 0xb1, 0xb2}; !bytes.Equal(res, want) {
			t.Fatalf("got %x, want %x", res, want)
		}
	}
}
