package rtp

import (
	"testing"
	"time"
)

// Originally both directions of the NTP conversion round down, so a time -> NTP -> time round
// trip loses 1 ns for most nanosecond values (e.g. .000000001 comes back as .000000000).
// With the change the NTP -> time direction rounds up and the round trip is exact.
func TestDemoCaptureTimeRoundTripIsExact(t *testing.T) {
	base := time.Date(2024, time.February, 29, 23, 59, 59, 0, time.UTC)
	bad := 0
	for _, ns := range []int{0, 1, 2, 3, 7, 499_999_999, 500_000_000, 500_000_001, 999_999_998, 999_999_999} {
		in := base.Add(time.Duration(ns))
		out := NewAbsCaptureTimeExtension(in).CaptureTime()
		if !out.Equal(in) {
			bad++
			t.Errorf("ns=%d: round trip is off by %v", ns, out.Sub(in))
		}
	}
	// a dense sweep as well
	for ns := 0; ns < 1_000_000_000; ns += 9973 {
		in := base.Add(time.Duration(ns))
		if out := NewAbsCaptureTimeExtension(in).CaptureTime(); !out.Equal(in) {
			bad++
		}
	}
	if bad != 0 {
		t.Errorf("%d instants did not survive the round trip exactly", bad)
	}

	// abs-send-time estimation: still never later than the send instant and within one tick
	send := base.Add(123_456_789)
	ext := NewAbsSendTimeExtension(send)
	est := ext.Estimate(send.Add(70 * time.Millisecond))
	if d := send.Sub(est); d < 0 || d > 3815*time.Nanosecond {
		t.Errorf("estimate is off by %v", d)
	}
}
