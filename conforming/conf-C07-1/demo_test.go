package rtp

import "testing"

// Originally the first value of a random sequencer is 1 + Intn(32767), i.e. it lies in
// 1..32767 and is never 0. With the change it is drawn from the whole lower half 0..32767.
// 4 million draws miss the value 0 with probability (1-2^-15)^(4e6) < 1e-52.
func TestDemoRandomSequencerCanStartAtZero(t *testing.T) {
	sawZero := false
	for i := 0; i < 4_000_000; i++ {
		s := NewRandomSequencer()
		first := s.NextSequenceNumber()
		if first >= 1<<15 {
			t.Fatalf("random sequencer started at %d, want a value below 2^15", first)
		}
		if first != 0 {
			continue
		}
		sawZero = true
		// handing out 0 counts as a roll over, exactly like NewFixedSequencer(0)
		if roc := s.RollOverCount(); roc != 1 {
			t.Fatalf("first value 0 but RollOverCount = %d, want 1", roc)
		}
		if next := s.NextSequenceNumber(); next != 1 {
			t.Fatalf("0 was followed by %d, want 1", next)
		}
	}
	if !sawZero {
		t.Errorf("no random sequencer out of 4,000,000 started at 0")
	}
}
