package codecs

import (
	"bytes"
	"testing"
)

// RFC 6184 section 5.8: in interleaved mode the first fragment of a unit is a FU-B (type 29,
// FU header followed by a 16-bit DON), the following ones are FU-As.
func TestDemoH264PacketDecodesFUB(t *testing.T) {
	for _, avc := range []bool{false, true} {
		pkt := H264Packet{IsAVC: avc}

		res, err := pkt.Unmarshal([]byte{0x7d, 0x85, 0x12, 0x34, 0xa1, 0xa2}) // FU-B S=1 type 5 DON 0x1234
		if err != nil || len(res) != 0 {
			t.Fatalf("FU-B start fragment: %x, %v", res, err)
		}
		res, err = pkt.Unmarshal([]byte{0x7c, 0x05, 0xa3}) // FU-A middle
		if err != nil || len(res) != 0 {
			t.Fatalf("FU-A middle fragment: %x, %v", res, err)
		}
		res, err = pkt.Unmarshal([]byte{0x7c, 0x45, 0xa4}) // FU-A end
		if err != nil {
			t.Fatal(err)
		}

		want := []byte{0, 0, 0, 1, 0x65, 0xa1, 0xa2, 0xa3, 0xa4}
		if avc {
			want = []byte{0, 0, 0, 5, 0x65, 0xa1, 0xa2, 0xa3, 0xa4}
		}
		if !bytes.Equal(res, want) {
			t.Fatalf("got %x, want %x", res, want)
		}

		// truncated FU-B (no room for the DON) is refused, not a panic
		if _, err = pkt.Unmarshal([]byte{0x7d, 0x85, 0x12}); err == nil {
			t.Fatal("truncated FU-B accepted")
		}
	}
}
