package codecs

import (
	"bytes"
	"testing"
)

// The start fragment of a FU-A was lost; the receiver sees the middle and the end fragment.
// Original: the tail is glued together and handed out as if it were a complete NAL unit.
// Patched: both fragments are refused with an error, and the next complete unit decodes fine.
func TestDemoH264FUAWithoutStart(t *testing.T) {
	pkt := &H264Packet{}

	middle := []byte{0x7c, 0x05, 0xAA, 0xBB} // FU-A, NRI 3, type 5, S=0 E=0
	end := []byte{0x7c, 0x45, 0xCC, 0xDD}    // FU-A, NRI 3, type 5, E=1

	if out, err := pkt.Unmarshal(middle); err == nil {
		t.Fatalf("middle fragment without start accepted (out=%x)", out)
	}
	if out, err := pkt.Unmarshal(end); err == nil {
		t.Fatalf("end fragment without start produced a NAL unit: %x", out)
	}

	// a complete FU-A sequence afterwards is decoded as before
	start := []byte{0x7c, 0x85, 0x01, 0x02}
	if out, err := pkt.Unmarshal(start); err != nil || len(out) != 0 {
		t.Fatalf("start: %x %v", out, err)
	}
	out, err := pkt.Unmarshal(end)
	if err != nil {
		t.Fatal(err)
	}
	want := []byte{0, 0, 0, 1, 0x65, 0x01, 0x02, 0xCC, 0xDD}
	if !bytes.Equal(out, want) {
		t.Fatalf("got %x want %x", out, want)
	}
}
