package rtp

import (
	"errors"
	"testing"
)

// Originally an Unmarshal that rejects a too short input leaves the receiver as it was, i.e.
// still holding the fields of whatever was decoded into it before. With the change the
// receiver is reset to its zero value when the input is rejected.
func TestDemoRejectedUnmarshalResetsReceiver(t *testing.T) {
	off := int64(-5)

	al := AudioLevelExtension{Level: 99, Voice: true}
	if err := al.Unmarshal(nil); !errors.Is(err, errTooSmall) {
		t.Fatalf("AudioLevel: %v", err)
	}
	if al != (AudioLevelExtension{}) {
		t.Errorf("AudioLevel: stale fields after rejected Unmarshal: %+v", al)
	}

	tcc := TransportCCExtension{TransportSequence: 0xBEEF}
	if err := tcc.Unmarshal([]byte{1}); !errors.Is(err, errTooSmall) {
		t.Fatalf("TransportCC: %v", err)
	}
	if tcc != (TransportCCExtension{}) {
		t.Errorf("TransportCC: stale fields after rejected Unmarshal: %+v", tcc)
	}

	pd := PlayoutDelayExtension{MinDelay: 10, MaxDelay: 20}
	if err := pd.Unmarshal([]byte{1, 2}); !errors.Is(err, errTooSmall) {
		t.Fatalf("PlayoutDelay: %v", err)
	}
	if pd != (PlayoutDelayExtension{}) {
		t.Errorf("PlayoutDelay: stale fields after rejected Unmarshal: %+v", pd)
	}

	ast := AbsSendTimeExtension{Timestamp: 0x123456}
	if err := ast.Unmarshal([]byte{1, 2}); !errors.Is(err, errTooSmall) {
		t.Fatalf("AbsSendTime: %v", err)
	}
	if ast != (AbsSendTimeExtension{}) {
		t.Errorf("AbsSendTime: stale fields after rejected Unmarshal: %+v", ast)
	}

	act := AbsCaptureTimeExtension{Timestamp: 0x1122334455667788, EstimatedCaptureClockOffset: &off}
	if err := act.Unmarshal([]byte{1, 2, 3, 4, 5, 6, 7}); !errors.Is(err, errTooSmall) {
		t.Fatalf("AbsCaptureTime: %v", err)
	}
	if act.Timestamp != 0 || act.EstimatedCaptureClockOffset != nil {
		t.Errorf("AbsCaptureTime: stale fields after rejected Unmarshal: %+v", act)
	}
	if off != -5 {
		t.Errorf("the caller's offset variable was modified: %d", off)
	}

	// accepted inputs decode as before, whatever the receiver held
	act = AbsCaptureTimeExtension{Timestamp: 7, EstimatedCaptureClockOffset: &off}
	if err := act.Unmarshal([]byte{0, 0, 0, 0, 0, 0, 1, 0, 0xFF}); err != nil ||
		act.Timestamp != 256 || act.EstimatedCaptureClockOffset != nil {
		t.Errorf("AbsCaptureTime: 9 byte input decoded to %+v, %v", act, err)
	}
}
