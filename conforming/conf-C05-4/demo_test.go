package rtp

import (
	"bytes"
	"testing"
)

// Deleting the last extension element clears the X bit: the packet goes out without an
// (empty) extension block, and the next SetExtension chooses the profile afresh.
func TestDemoDelLastExtensionClearsXBit(t *testing.T) {
	p := &Packet{Header: Header{Version: 2, PayloadType: 96, SequenceNumber: 7}, Payload: []byte{1, 2, 3}}
	plain, err := p.Marshal()
	if err != nil {
		t.Fatal(err)
	}

	if err = p.SetExtension(1, []byte{0xAA}); err != nil {
		t.Fatal(err)
	}
	if err = p.SetExtension(2, []byte{0xBB}); err != nil {
		t.Fatal(err)
	}
	if err = p.DelExtension(1); err != nil {
		t.Fatal(err)
	}
	if !p.Extension {
		t.Fatal("X bit must stay while an element is left")
	}
	if err = p.DelExtension(2); err != nil {
		t.Fatal(err)
	}

	// the accessors report an empty map, as before
	if p.GetExtension(1) != nil || p.GetExtension(2) != nil || len(p.GetExtensionIDs()) != 0 {
		t.Fatal("deleted ids still reported")
	}
	if p.DelExtension(2) == nil {
		t.Fatal("second delete must fail")
	}

	// new: no X bit, no empty extension block on the wire
	if p.Extension {
		t.Fatal("X bit still set after the last element was deleted")
	}
	raw, err := p.Marshal()
	if err != nil {
		t.Fatal(err)
	}
	if !bytes.Equal(raw, plain) {
		t.Fatalf("wire image %x, want %x", raw, plain)
	}

	// new: the header is profile-less again, so a 20 octet value selects the two-byte profile
	val := bytes.Repeat([]byte{0x5A}, 20)
	if err = p.SetExtension(3, val); err != nil {
		t.Fatalf("SetExtension after emptying the header: %v", err)
	}
	raw, err = p.Marshal()
	if err != nil {
		t.Fatal(err)
	}
	q := &Packet{}
	if err = q.Unmarshal(raw); err != nil {
		t.Fatal(err)
	}
	if !bytes.Equal(q.GetExtension(3), val) || q.ExtensionProfile != 0x1000 {
		t.Fatalf("after the wire: %x profile %x", q.GetExtension(3), q.ExtensionProfile)
	}
}
