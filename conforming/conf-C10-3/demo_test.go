package codecs

import (
	"bytes"
	"testing"
)

// A STAP-A with a zero-length aggregation unit between two real NAL units.
// Original: a bare start code / a zero AVC length prefix is emitted for it.
// Patched: the empty unit is skipped.
func TestDemoH264StapAEmptyUnit(t *testing.T) {
	stap := []byte{
		0x78,
		0x00, 0x02, 0x67, 0x42,
		0x00, 0x00, // empty unit
		0x00, 0x02, 0x68, 0xCE,
	}

	out, err := (&H264Packet{}).Unmarshal(stap)
	if err != nil {
		t.Fatal(err)
	}
	want := []byte{0, 0, 0, 1, 0x67, 0x42, 0, 0, 0, 1, 0x68, 0xCE}
	if !bytes.Equal(out, want) {
		t.Fatalf("Annex-B: got %x want %x", out, want)
	}

	out, err = (&H264Packet{IsAVC: true}).Unmarshal(stap)
	if err != nil {
		t.Fatal(err)
	}
	want = []byte{0, 0, 0, 2, 0x67, 0x42, 0, 0, 0, 2, 0x68, 0xCE}
	if !bytes.Equal(out, want) {
		t.Fatalf("AVC: got %x want %x", out, want)
	}
}
