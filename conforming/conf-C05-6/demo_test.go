package rtp

import (
	"bytes"
	"testing"
)

// A Header is a plain struct and is routinely copied by value (Packet.Marshal, Packet.Clone
// and Packet.String have value receivers, users keep "before" snapshots, ...). DelExtension on
// one copy used to shift the elements inside the shared backing array, so another copy saw
// ids [2 3 3] instead of [1 2 3]. It now leaves the old array alone.
func TestDemoDelExtensionDoesNotClobberHeaderCopies(t *testing.T) {
	h := Header{Version: 2}
	if err := h.SetExtension(1, []byte{0xA1}); err != nil {
		t.Fatal(err)
	}
	if err := h.SetExtension(2, []byte{0xB2}); err != nil {
		t.Fatal(err)
	}
	if err := h.SetExtension(3, []byte{0xC3}); err != nil {
		t.Fatal(err)
	}

	snapshot := h // value copy taken before the delete
	before, err := snapshot.Marshal()
	if err != nil {
		t.Fatal(err)
	}

	if err = h.DelExtension(1); err != nil {
		t.Fatal(err)
	}

	// the header the call was made on: exactly as before
	if ids := h.GetExtensionIDs(); !bytes.Equal(ids, []byte{2, 3}) || h.GetExtension(1) != nil ||
		!bytes.Equal(h.GetExtension(2), []byte{0xB2}) || !bytes.Equal(h.GetExtension(3), []byte{0xC3}) {
		t.Fatalf("header after delete: ids %v", ids)
	}

	// the snapshot: untouched
	if ids := snapshot.GetExtensionIDs(); !bytes.Equal(ids, []byte{1, 2, 3}) {
		t.Fatalf("snapshot ids changed to %v", ids)
	}
	after, err := snapshot.Marshal()
	if err != nil {
		t.Fatal(err)
	}
	if !bytes.Equal(before, after) {
		t.Fatalf("snapshot serialises to %x, was %x", after, before)
	}
}
