package rtp

import (
	"bytes"
	"testing"
)

// A received packet may repeat an extension id. DelExtension now removes every element with
// the id, so the id is really gone afterwards (it used to uncover the second occurrence).
func TestDemoDelExtensionRemovesRepeatedID(t *testing.T) {
	raw := []byte{
		0x90, 0x60, 0x00, 0x01, 0x00, 0x00, 0x00, 0x02, 0x00, 0x00, 0x00, 0x03,
		0xBE, 0xDE, 0x00, 0x02,
		0x10, 0xA1, // id 1
		0x20, 0xB2, // id 2
		0x10, 0xC3, // id 1 again
		0x00, 0x00,
		0xCA, 0xFE,
	}
	p := &Packet{}
	if err := p.Unmarshal(raw); err != nil {
		t.Fatal(err)
	}
	if got := p.GetExtension(1); !bytes.Equal(got, []byte{0xA1}) {
		t.Fatalf("GetExtension(1) = %x", got)
	}
	if err := p.DelExtension(1); err != nil {
		t.Fatal(err)
	}
	if got := p.GetExtension(1); got != nil {
		t.Fatalf("id 1 was deleted but GetExtension(1) = %x", got)
	}
	if ids := p.GetExtensionIDs(); len(ids) != 1 || ids[0] != 2 {
		t.Fatalf("ids after delete: %v", ids)
	}
	if p.DelExtension(1) == nil {
		t.Fatal("deleting an absent id must fail")
	}
	out, err := p.Marshal()
	if err != nil {
		t.Fatal(err)
	}
	want := []byte{
		0x90, 0x60, 0x00, 0x01, 0x00, 0x00, 0x00, 0x02, 0x00, 0x00, 0x00, 0x03,
		0xBE, 0xDE, 0x00, 0x01, 0x20, 0xB2, 0x00, 0x00,
		0xCA, 0xFE,
	}
	if !bytes.Equal(out, want) {
		t.Fatalf("wire image %x, want %x", out, want)
	}
}
