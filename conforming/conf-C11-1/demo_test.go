package codecs

import (
	"bytes"
	"testing"
)

// A 10-byte frame, MTU 9, picture id enabled (3-byte descriptor, 6 payload bytes per packet).
// Original: packets carry 6 + 4 bytes. Patched: 5 + 5 bytes. Both reassemble to the frame.
func TestDemoVP8BalancedFragments(t *testing.T) {
	frame := []byte{1, 2, 3, 4, 5, 6, 7, 8, 9, 10}
	pls := (&VP8Payloader{EnablePictureID: true}).Payload(9, frame)
	if len(pls) != 2 {
		t.Fatalf("expected 2 packets, got %d", len(pls))
	}
	var got []byte
	sizes := []int{}
	for i, pl := range pls {
		d := &VP8Packet{}
		b, err := d.Unmarshal(pl)
		if err != nil {
			t.Fatal(err)
		}
		if (d.S == 1) != (i == 0) || d.PID != 0 || d.I != 1 || d.PictureID != 0 {
			t.Fatalf("bad descriptor on packet %d: %+v", i, d)
		}
		sizes = append(sizes, len(b))
		got = append(got, b...)
	}
	if !bytes.Equal(got, frame) {
		t.Fatalf("frame not reproduced: %x", got)
	}
	if sizes[0] != 5 || sizes[1] != 5 {
		t.Fatalf("expected payload sizes 5+5, got %v", sizes)
	}
}
