package codecs

import (
	"bytes"
	"testing"
)

// One AV1Packet value used for two consecutive RTP payloads (as one does with the other
// depacketizers of this package) must report the OBU elements of the second payload.
func TestDemoAV1PacketReuseParsesTheNewPayload(t *testing.T) {
	first := []byte{0x10, 0x30, 0xA1, 0xA2}              // W=1: one frame OBU
	second := []byte{0x20, 0x02, 0x18, 0xB1, 0x30, 0xC1} // W=2: frame header OBU + frame OBU

	pkt := &AV1Packet{}
	if _, err := pkt.Unmarshal(first); err != nil {
		t.Fatal(err)
	}
	if len(pkt.OBUElements) != 1 || !bytes.Equal(pkt.OBUElements[0], []byte{0x30, 0xA1, 0xA2}) {
		t.Fatalf("first payload: % x", pkt.OBUElements)
	}

	if _, err := pkt.Unmarshal(second); err != nil {
		t.Fatal(err)
	}
	if pkt.W != 2 {
		t.Fatalf("W = %d", pkt.W)
	}
	if len(pkt.OBUElements) != 2 ||
		!bytes.Equal(pkt.OBUElements[0], []byte{0x18, 0xB1}) ||
		!bytes.Equal(pkt.OBUElements[1], []byte{0x30, 0xC1}) {
		t.Fatalf("second payload: OBUElements still % x", pkt.OBUElements)
	}

	// a malformed payload is no longer hidden behind the elements of the previous one either
	if _, err := pkt.Unmarshal([]byte{0x00, 0x05, 0x30}); err == nil {
		t.Fatal("element length 5 exceeds the payload: expected an error")
	}
}
