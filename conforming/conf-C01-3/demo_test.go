package rtp

import (
	"bytes"
	"testing"
)

// Padding=false together with PaddingSize=4 is contradictory. The original encoder reserves four
// extra octets anyway but neither sets the P bit nor writes the count, so the four octets are
// decoded as part of the payload. With the change PaddingSize is ignored when the padding bit is
// clear: no extra octets, and the payload survives the round trip.
func TestDemoPaddingSizeIgnoredWithoutPaddingBit(t *testing.T) {
	p := Packet{Header: Header{Version: 2, Padding: false, PayloadType: 96}, Payload: []byte{1, 2, 3}, PaddingSize: 4}
	if got, want := p.MarshalSize(), 12+3; got != want {
		t.Fatalf("MarshalSize = %d, want %d", got, want)
	}
	raw, err := p.Marshal()
	if err != nil {
		t.Fatal(err)
	}
	if len(raw) != 15 {
		t.Fatalf("len(Marshal()) = %d, want 15", len(raw))
	}
	var q Packet
	if err := q.Unmarshal(raw); err != nil {
		t.Fatal(err)
	}
	if !bytes.Equal(q.Payload, p.Payload) {
		t.Fatalf("payload %v decoded as %v", p.Payload, q.Payload)
	}
}
