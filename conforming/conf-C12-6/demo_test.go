package codecs

import "testing"

// A picture with two spatial layers: both layer frames start with B=1, the second one is
// predicted from the first (D=1). Only the first one starts the picture.
func TestDemoVP9IsPartitionHeadIgnoresDependentLayerFrames(t *testing.T) {
	// I=1 L=1 F=1 B=1 E=1 | 15 bit picture id 0x1234 | TID=0 U=0 SID=0 D=0 | data
	base := []byte{0xBC, 0x92, 0x34, 0x00, 0xAA}
	// I=1 L=1 F=1 B=1 E=1 | same picture id            | TID=0 U=0 SID=1 D=1 | data
	upper := []byte{0xBC, 0x92, 0x34, 0x03, 0xBB}
	// the same with a 7 bit picture id and in non-flexible mode (TL0PICIDX follows)
	upper7 := []byte{0xAC, 0x34, 0x03, 0x09, 0xBB}

	for _, payload := range [][]byte{base, upper, upper7} {
		var pkt VP9Packet
		if _, err := pkt.Unmarshal(payload); err != nil || !pkt.B || !pkt.L {
			t.Fatalf("% x: %v %+v", payload, err, pkt)
		}
	}

	vp9 := &VP9Packet{}
	if !vp9.IsPartitionHead(base) {
		t.Error("base layer frame (B=1, D=0) must be a partition head")
	}
	if vp9.IsPartitionHead(upper) || vp9.IsPartitionHead(upper7) {
		t.Error("dependent upper layer frame (B=1, D=1) reported as partition head")
	}
	if (&VP9PartitionHeadChecker{}).IsPartitionHead(upper) {
		t.Error("VP9PartitionHeadChecker: dependent upper layer frame reported as partition head")
	}

	// packets without layer indices - everything VP9Payloader produces - are judged by B alone
	if !vp9.IsPartitionHead([]byte{0x98, 0x92, 0x34, 0x01}) || vp9.IsPartitionHead([]byte{0x94, 0x92, 0x34, 0x01}) {
		t.Error("packet without layer indices misjudged")
	}
}
