package rtp

import "testing"

// A receiver that decoded a packet with a one-byte extension block and then decodes a packet
// without extension (X bit clear) keeps ExtensionProfile = 0xBEDE in the original code. With the
// change the stale profile is cleared, as in a fresh receiver.
func TestDemoExtensionProfileClearedWithoutExtensionBlock(t *testing.T) {
	withExt := []byte{
		0x90, 0x60, 0x00, 0x01, 0x00, 0x00, 0x00, 0x02, 0x00, 0x00, 0x00, 0x03,
		0xBE, 0xDE, 0x00, 0x01, 0x10, 0xAA, 0x00, 0x00, 0x01, 0x02,
	}
	plain := []byte{0x80, 0x60, 0x00, 0x02, 0x00, 0x00, 0x00, 0x02, 0x00, 0x00, 0x00, 0x03, 0x01, 0x02}

	var p Packet
	if err := p.Unmarshal(withExt); err != nil {
		t.Fatal(err)
	}
	if p.ExtensionProfile != 0xBEDE {
		t.Fatalf("profile %#x", p.ExtensionProfile)
	}
	if err := p.Unmarshal(plain); err != nil {
		t.Fatal(err)
	}
	if p.Extension || p.ExtensionProfile != 0 {
		t.Fatalf("packet without extension decoded with Extension=%v ExtensionProfile=%#x", p.Extension, p.ExtensionProfile)
	}

	var h Header
	if _, err := h.Unmarshal(withExt); err != nil {
		t.Fatal(err)
	}
	if _, err := h.Unmarshal(plain); err != nil {
		t.Fatal(err)
	}
	if h.ExtensionProfile != 0 {
		t.Fatalf("header without extension decoded with ExtensionProfile=%#x", h.ExtensionProfile)
	}
}
