package rtp

import "testing"

// PayloadType 200 does not fit the 7-bit PT field. The original encoder stores the whole octet,
// so bit 7 of the payload type is written into the marker bit: a packet with Marker=false is
// decoded with Marker=true. With the change the marker bit on the wire is governed by the Marker
// field alone and the payload type is truncated to its low seven bits.
func TestDemoPayloadTypeDoesNotLeakIntoMarker(t *testing.T) {
	p := Packet{Header: Header{Version: 2, Marker: false, PayloadType: 200, SequenceNumber: 7}, Payload: []byte{9}}
	raw, err := p.Marshal()
	if err != nil {
		t.Fatal(err)
	}
	var q Packet
	if err := q.Unmarshal(raw); err != nil {
		t.Fatal(err)
	}
	if q.Marker {
		t.Fatalf("Marker=false was encoded as Marker=true (octet 1 = %#x)", raw[1])
	}
	if q.PayloadType != 200&0x7F {
		t.Fatalf("payload type %d", q.PayloadType)
	}
}
