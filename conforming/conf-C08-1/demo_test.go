package codecs

import "testing"

// An empty but non-nil sample buffer: the original code returns one zero-length
// fragment, the patched code returns no fragment at all.
func TestDemoAudioPayloadersEmptyInput(t *testing.T) {
	if got := (&G711Payloader{}).Payload(100, []byte{}); len(got) != 0 {
		t.Fatalf("G711: expected no fragments for empty input, got %d (%v)", len(got), got)
	}
	if got := (&G722Payloader{}).Payload(100, []byte{}); len(got) != 0 {
		t.Fatalf("G722: expected no fragments for empty input, got %d (%v)", len(got), got)
	}
	// non-empty input is split exactly as before
	got := (&G711Payloader{}).Payload(2, []byte{1, 2, 3})
	if len(got) != 2 || len(got[0]) != 2 || len(got[1]) != 1 {
		t.Fatalf("unexpected split %v", got)
	}
}
