package codecs

import (
	"bytes"
	"testing"

	"github.com/pion/rtp/codecs/av1/obu"
)

// An OBU without extension header (layer 0/0 by inference) followed by an OBU whose extension
// header says temporal layer 1. The original payloader aggregates both into one packet
// (W=2); with the change they go into two packets.
func TestDemoAV1ImplicitLayerZeroIsKeptApart(t *testing.T) {
	base := (&obu.OBU{
		Header:  obu.Header{Type: obu.OBUFrameHeader, HasSizeField: true},
		Payload: []byte{0x11, 0x22},
	}).Marshal()
	enh := (&obu.OBU{
		Header: obu.Header{
			Type:            obu.OBUFrame,
			HasSizeField:    true,
			ExtensionHeader: &obu.ExtensionHeader{TemporalID: 1, SpatialID: 0},
		},
		Payload: []byte{0x33, 0x44, 0x55},
	}).Marshal()
	stream := append(append([]byte{}, base...), enh...)

	payloads := (&AV1Payloader{}).Payload(100, stream)
	if len(payloads) != 2 {
		t.Fatalf("want 2 packets (one per layer), got %d: %x", len(payloads), payloads)
	}
	for i, p := range payloads {
		if w := (p[0] & av1WMask) >> av1WBitshift; w != 1 {
			t.Fatalf("packet %d: want W=1, got %d", i, w)
		}
		if p[0]&(av1ZMask|av1YMask) != 0 {
			t.Fatalf("packet %d: unexpected fragmentation bits %08b", i, p[0])
		}
	}

	// Still lossless.
	d := &AV1Depacketizer{}
	var got []byte
	for _, p := range payloads {
		out, err := d.Unmarshal(p)
		if err != nil {
			t.Fatal(err)
		}
		got = append(got, out...)
	}
	if !bytes.Equal(got, stream) {
		t.Fatalf("round trip: got %x want %x", got, stream)
	}
}
