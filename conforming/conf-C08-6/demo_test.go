package codecs

import (
	"bytes"
	"testing"
)

// 40 ms of G.711 (320 bytes) with room for 200 bytes per packet: two packets of 20 ms each,
// not one of 25 ms followed by one of 15 ms.
func TestDemoG711G722EvenFragments(t *testing.T) {
	samples := make([]byte, 320)
	for i := range samples {
		samples[i] = byte(i)
	}

	for name, payloader := range map[string]interface {
		Payload(mtu uint16, payload []byte) [][]byte
	}{
		"G711": &G711Payloader{},
		"G722": &G722Payloader{},
	} {
		res := payloader.Payload(200, samples)
		if !bytes.Equal(bytes.Join(res, nil), samples) {
			t.Fatalf("%s: samples lost", name)
		}
		if len(res) != 2 || len(res[0]) != 160 || len(res[1]) != 160 {
			sizes := []int{}
			for _, r := range res {
				sizes = append(sizes, len(r))
			}
			t.Fatalf("%s: fragment sizes %v, want [160 160]", name, sizes)
		}

		// 7 bytes, MTU 3: still ceil(7/3) = 3 packets, sizes 3,2,2
		res = payloader.Payload(3, samples[:7])
		if len(res) != 3 || len(res[0]) != 3 || len(res[1]) != 2 || len(res[2]) != 2 {
			t.Fatalf("%s: got %x, want sizes 3,2,2", name, res)
		}
	}
}
