package rtp

import (
	"bytes"
	"testing"
)

// On a header without extensions the first SetExtension selects the profile. The original looks at
// the value length only, so a short value with id 20 selects the one-byte profile and is then
// refused because one-byte ids stop at 14. With the change an id above 14 selects the two-byte
// profile and the call is accepted.
func TestDemoFirstExtensionWithLargeIDSelectsTwoByteProfile(t *testing.T) {
	var h Header
	h.Version = 2
	if err := h.SetExtension(20, []byte{0xAA, 0xBB}); err != nil {
		t.Fatalf("SetExtension(20, 2 octets) on a fresh header: %v", err)
	}
	if !h.Extension || h.ExtensionProfile != 0x1000 {
		t.Fatalf("Extension=%v profile=%#x, want two-byte", h.Extension, h.ExtensionProfile)
	}
	raw, err := h.Marshal()
	if err != nil {
		t.Fatal(err)
	}
	var d Header
	if _, err := d.Unmarshal(raw); err != nil {
		t.Fatal(err)
	}
	if got := d.GetExtension(20); !bytes.Equal(got, []byte{0xAA, 0xBB}) {
		t.Fatalf("after the wire GetExtension(20) = %x", got)
	}

	// ids that fit still select the compact one-byte form
	var o Header
	if err := o.SetExtension(14, []byte{1}); err != nil || o.ExtensionProfile != 0xBEDE {
		t.Fatalf("id 14: err=%v profile=%#x", err, o.ExtensionProfile)
	}
}
