package rtp

import (
	"bytes"
	"testing"
)

// Packet.Raw is a deprecated field that applications may still fill in (the library itself never
// reads or writes it). The original Clone drops it; with the change the clone carries its own copy.
func TestDemoCloneKeepsRaw(t *testing.T) {
	raw := []byte{0x80, 0x60, 0x00, 0x01, 0x00, 0x00, 0x00, 0x02, 0x00, 0x00, 0x00, 0x03, 0xAA, 0xBB}
	pkt := &Packet{}
	if err := pkt.Unmarshal(raw); err != nil {
		t.Fatal(err)
	}
	pkt.Raw = raw

	clone := pkt.Clone()
	if !bytes.Equal(clone.Raw, raw) {
		t.Fatalf("clone.Raw = %x, want %x", clone.Raw, raw)
	}

	// ... and it is a copy, not an alias.
	clone.Raw[12] = 0x00
	if pkt.Raw[12] != 0xAA || raw[12] != 0xAA {
		t.Fatal("clone.Raw aliases the original")
	}

	// A packet without Raw still clones without Raw.
	pkt.Raw = nil
	if c := pkt.Clone(); c.Raw != nil {
		t.Fatalf("unexpected Raw %x", c.Raw)
	}
}
