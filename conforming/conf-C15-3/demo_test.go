package codecs

import (
	"bytes"
	"testing"
)

// First fragment of an OBU (Y=1), then a payload that cannot be parsed (too short), then a
// continuation packet (Z=1). The original depacketizer keeps the first fragment across the
// unparsable payload and completes the OBU with the continuation; with the change the unparsable
// payload makes it drop the pending fragment.
func TestDemoAV1DepacketizerDropsPendingFragmentOnBadPayload(t *testing.T) {
	d := &AV1Depacketizer{}

	out, err := d.Unmarshal([]byte{0x50, 0x30, 0xAA}) // Y=1 W=1, OBU_FRAME header + 1 byte
	if err != nil || len(out) != 0 {
		t.Fatalf("first fragment: %x %v", out, err)
	}

	if _, err = d.Unmarshal([]byte{0x00}); err == nil { // aggregation header only
		t.Fatal("want an error for a one byte payload")
	}

	out, err = d.Unmarshal([]byte{0x90, 0xBB}) // Z=1 W=1
	if err != nil {
		t.Fatal(err)
	}
	if len(out) != 0 {
		t.Fatalf("an OBU was assembled across an unparsable payload: %x", out)
	}

	// The next, intact, temporal unit decodes as on a fresh depacketizer.
	next := [][]byte{{0x50, 0x30, 0x01, 0x02}, {0x90, 0x03}}
	fresh := &AV1Depacketizer{}
	for i, pkt := range next {
		got, err1 := d.Unmarshal(pkt)
		want, err2 := fresh.Unmarshal(pkt)
		if err1 != nil || err2 != nil || !bytes.Equal(got, want) {
			t.Fatalf("packet %d: %x (%v) vs fresh %x (%v)", i, got, err1, want, err2)
		}
		if i == 1 && !bytes.Equal(got, []byte{0x32, 0x03, 0x01, 0x02, 0x03}) {
			t.Fatalf("next temporal unit decoded to %x", got)
		}
	}
}
