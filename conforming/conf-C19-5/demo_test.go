package rtp

import (
	"reflect"
	"testing"
)

// A VLA with resolution records followed by surplus bytes. The original Unmarshal silently stops
// after the records (returns nil and a count below len), the changed one reports an error.
func TestDemoVLAUnmarshalRejectsTrailingData(t *testing.T) {
	vla := VLA{
		RTPStreamCount: 2,
		ActiveSpatialLayer: []SpatialLayer{
			{RTPStreamID: 0, SpatialID: 0, TargetBitrates: []int{150}, Width: 320, Height: 180, Framerate: 15},
			{RTPStreamID: 1, SpatialID: 0, TargetBitrates: []int{500, 900}, Width: 1280, Height: 720, Framerate: 30},
		},
		HasResolutionAndFramerate: true,
	}
	raw, err := vla.Marshal()
	if err != nil {
		t.Fatal(err)
	}

	var back VLA
	if n, err := back.Unmarshal(raw); err != nil || n != len(raw) || !reflect.DeepEqual(vla, back) {
		t.Fatalf("round trip: %v %d %+v", err, n, back)
	}

	for _, extra := range [][]byte{{0x00}, {0x01, 0x02, 0x03}, make([]byte, 10)} {
		long := append(append([]byte{}, raw...), extra...)
		n, err := (&VLA{}).Unmarshal(long)
		if err == nil {
			t.Fatalf("%d surplus bytes accepted (consumed %d of %d)", len(extra), n, len(long))
		}
		if n > len(long) {
			t.Fatalf("consumed %d of %d", n, len(long))
		}
	}
}
