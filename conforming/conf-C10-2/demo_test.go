package codecs

import "testing"

// An Annex-B buffer containing a "NAL unit" whose type field is 24 (0x78 = STAP-A as an RTP
// payload type) between two slices. Original: it is sent as a single-NAL-unit packet, which
// H264Packet then (mis)parses as a STAP-A. Patched: it is not sent.
func TestDemoH264PayloaderSkipsPacketTypes(t *testing.T) {
	au := []byte{
		0, 0, 1, 0x41, 0xAA, 0xBB,
		0, 0, 1, 0x78, 0x00, 0x01, 0x65,
		0, 0, 1, 0x41, 0xCC, 0xDD,
	}
	out := (&H264Payloader{}).Payload(1200, au)
	if len(out) != 2 {
		t.Fatalf("expected the two slices only, got %d payloads: %x", len(out), out)
	}
	for _, pl := range out {
		if typ := pl[0] & 0x1f; typ != 1 {
			t.Fatalf("unexpected payload type %d: %x", typ, pl)
		}
	}

	// also when such a unit would need fragmenting (types 28/29 in a FU header)
	big := append([]byte{0, 0, 1, 0x7c}, make([]byte, 50)...)
	for i := 4; i < len(big); i++ {
		big[i] = 0xEE
	}
	if out := (&H264Payloader{}).Payload(10, big); len(out) != 0 {
		t.Fatalf("type 28 unit was packetized: %x", out)
	}
}
