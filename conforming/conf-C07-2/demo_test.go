package rtp

import "testing"

// Originally the random draw Intn(32767) is stored as the "previous" value, so the first value
// handed out is draw+1, in 1..32767. With the change NewRandomSequencer is
// NewFixedSequencer(draw), so the first value handed out is the draw itself, in 0..32766:
// 32767 is no longer a possible first value and 0 becomes one.
// 4 million draws miss any given value with probability < 1e-52.
func TestDemoRandomSequencerFirstValueRange(t *testing.T) {
	sawZero, sawMax := false, false
	for i := 0; i < 4_000_000; i++ {
		s := NewRandomSequencer()
		switch first := s.NextSequenceNumber(); {
		case first >= 1<<15:
			t.Fatalf("random sequencer started at %d, want a value below 2^15", first)
		case first == 1<<15-1:
			sawMax = true
		case first == 0:
			sawZero = true
			if roc := s.RollOverCount(); roc != 1 {
				t.Fatalf("first value 0 but RollOverCount = %d, want 1", roc)
			}
		}
	}
	if sawMax {
		t.Errorf("a random sequencer started at 32767")
	}
	if !sawZero {
		t.Errorf("no random sequencer out of 4,000,000 started at 0")
	}
}
