package rtp

import (
	"bytes"
	"testing"
)

// A header whose X bit was switched off by hand still drags its old elements along, although
// nothing reports or serialises them. Clone no longer copies that dead weight, so switching
// the X bit back on in the clone does not resurrect them.
func TestDemoCloneDropsElementsHiddenByClearXBit(t *testing.T) {
	p := &Packet{Header: Header{Version: 2, PayloadType: 96, SequenceNumber: 1}, Payload: []byte{1, 2, 3}}
	if err := p.SetExtension(1, []byte{0xAA, 0xBB, 0xCC}); err != nil {
		t.Fatal(err)
	}
	if err := p.SetExtension(2, make([]byte, 16)); err != nil {
		t.Fatal(err)
	}
	p.Extension = false // "send this one without extensions"

	clone := p.Clone()

	// equal in everything that is reported or serialised
	a, err := p.Marshal()
	if err != nil {
		t.Fatal(err)
	}
	b, err := clone.Marshal()
	if err != nil {
		t.Fatal(err)
	}
	if !bytes.Equal(a, b) || clone.GetExtension(1) != nil || clone.GetExtensionIDs() != nil {
		t.Fatalf("clone differs: %x vs %x", a, b)
	}

	// new: the hidden elements were not copied
	if n := len(clone.Extensions); n != 0 {
		t.Fatalf("clone carries %d hidden extension elements", n)
	}
	if err = clone.SetExtension(7, []byte{0x77}); err != nil {
		t.Fatal(err)
	}
	if ids := clone.GetExtensionIDs(); !bytes.Equal(ids, []byte{7}) {
		t.Fatalf("ids of the clone after one SetExtension: %v", ids)
	}
}

// A well-formed header with extensions is cloned as before.
func TestDemoCloneKeepsVisibleElements(t *testing.T) {
	h := Header{Version: 2}
	if err := h.SetExtension(1, []byte{0xAA}); err != nil {
		t.Fatal(err)
	}
	c := h.Clone()
	if !bytes.Equal(c.GetExtension(1), []byte{0xAA}) || len(c.Extensions) != 1 {
		t.Fatal("visible element lost")
	}
	c.GetExtension(1)[0] = 0
	if h.GetExtension(1)[0] != 0xAA {
		t.Fatal("shared memory")
	}
}
