package rtp

import (
	"testing"
	"time"
)

type demoPayloader struct{}

func (demoPayloader) Payload(mtu uint16, payload []byte) [][]byte {
	var out [][]byte
	for len(payload) > int(mtu) {
		out = append(out, payload[:mtu])
		payload = payload[mtu:]
	}

	return append(out, payload)
}

// With abs-send-time enabled, the padding-only packets of GeneratePadding carry the extension
// too (they are what bandwidth probes consist of).
func TestDemoPaddingCarriesAbsSendTime(t *testing.T) {
	pktz := NewPacketizer(200, 96, 0x11223344, demoPayloader{}, NewFixedSequencer(100), 90000)
	pktz.EnableAbsSendTime(3)

	media := pktz.Packetize(make([]byte, 300), 960)
	if len(media) != 2 || media[0].Extension || media[1].GetExtension(3) == nil {
		t.Fatalf("media train changed: %v", media)
	}

	pads := pktz.GeneratePadding(3)
	if len(pads) != 3 {
		t.Fatalf("%d padding packets", len(pads))
	}
	for i, pad := range pads {
		if pad.SequenceNumber != uint16(102+i) {
			t.Fatalf("padding %d has sequence number %d", i, pad.SequenceNumber)
		}
		raw, err := pad.Marshal()
		if err != nil {
			t.Fatal(err)
		}
		back := &Packet{}
		if err = back.Unmarshal(raw); err != nil {
			t.Fatal(err)
		}
		// still a valid padding-only packet
		if !back.Padding || back.PaddingSize != 255 || len(back.Payload) != 0 || back.Version != 2 {
			t.Fatalf("not a padding-only packet: %+v", back.Header)
		}
		// new: it tells when it was sent
		ext := back.GetExtension(3)
		if ext == nil {
			t.Fatalf("padding packet %d carries no abs-send-time extension", i)
		}
		var ast AbsSendTimeExtension
		if err = ast.Unmarshal(ext); err != nil {
			t.Fatal(err)
		}
		now := time.Now()
		if d := now.Sub(ast.Estimate(now)); d < 0 || d > 5*time.Second {
			t.Fatalf("send instant off by %v", d)
		}
	}

	// with the extension disabled nothing changes
	plain := NewPacketizer(200, 96, 1, demoPayloader{}, NewFixedSequencer(1), 90000).GeneratePadding(1)
	if plain[0].Extension || plain[0].MarshalSize() != 12+255 {
		t.Fatal("padding without abs-send-time changed")
	}
}
