package rtp

import "testing"

// A spatial layer with a negative target bitrate. The original Marshal converts it to uint and
// writes a 10-byte LEB128 (18446744073709551615 kbps) that no receiver can read back as -1;
// with the change Marshal refuses the value.
func TestDemoVLAMarshalRejectsNegativeBitrate(t *testing.T) {
	vla := VLA{
		RTPStreamID:    0,
		RTPStreamCount: 1,
		ActiveSpatialLayer: []SpatialLayer{
			{RTPStreamID: 0, SpatialID: 0, TargetBitrates: []int{150, -1}},
		},
	}

	b, err := vla.Marshal()
	if err == nil {
		t.Fatalf("negative bitrate accepted, encoded as %x", b)
	}
	if b != nil {
		t.Fatalf("error together with bytes %x", b)
	}

	// zero and positive bitrates are still fine and encoded as before
	vla.ActiveSpatialLayer[0].TargetBitrates[1] = 0
	b, err = vla.Marshal()
	if err != nil || string(b) != string([]byte{0x01, 0x40, 0x96, 0x01, 0x00}) {
		t.Fatalf("valid VLA: %x %v", b, err)
	}
}
