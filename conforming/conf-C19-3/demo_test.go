package rtp

import "testing"

// The two spatial layers are listed highest first. Marshal has always sorted the temporal layer
// counts and the bitrates into bitmask order (stream, then spatial id), but the original writes
// the resolution records in slice order, so a receiver pairs the 1280x720 record with spatial
// layer 0. With the change the resolution records are written in bitmask order as well.
func TestDemoVLAMarshalSortsResolutionRecords(t *testing.T) {
	vla := VLA{
		RTPStreamID:               0,
		RTPStreamCount:            1,
		HasResolutionAndFramerate: true,
		ActiveSpatialLayer: []SpatialLayer{
			{RTPStreamID: 0, SpatialID: 1, TargetBitrates: []int{900}, Width: 1280, Height: 720, Framerate: 30},
			{RTPStreamID: 0, SpatialID: 0, TargetBitrates: []int{200}, Width: 640, Height: 360, Framerate: 15},
		},
	}

	b, err := vla.Marshal()
	if err != nil {
		t.Fatal(err)
	}

	var got VLA
	if n, err := got.Unmarshal(b); err != nil || n != len(b) {
		t.Fatalf("unmarshal: n=%d err=%v", n, err)
	}
	if len(got.ActiveSpatialLayer) != 2 {
		t.Fatalf("got %+v", got)
	}
	for _, want := range vla.ActiveSpatialLayer {
		sl := got.ActiveSpatialLayer[want.SpatialID] // decoded in bitmask order
		if sl.SpatialID != want.SpatialID || sl.TargetBitrates[0] != want.TargetBitrates[0] {
			t.Fatalf("spatial layer %d: %+v", want.SpatialID, sl)
		}
		if sl.Width != want.Width || sl.Height != want.Height || sl.Framerate != want.Framerate {
			t.Errorf("spatial layer %d (%d kbps) decoded with %dx%d@%d, want %dx%d@%d",
				want.SpatialID, sl.TargetBitrates[0], sl.Width, sl.Height, sl.Framerate,
				want.Width, want.Height, want.Framerate)
		}
	}
}
