package codecs

import "testing"

// With an MTU of 2 no FU-A can be built: the payloader used to pass the 2-byte unit and to drop
// the 4-byte one silently. It now refuses the MTU for the whole access unit (and keeps no state).
func TestDemoH264PayloaderRefusesMTUBelow3(t *testing.T) {
	accessUnit := []byte{
		0x00, 0x00, 0x01, 0x06, 0x80, // SEI, 2 bytes
		0x00, 0x00, 0x01, 0x65, 0x01, 0x02, 0x03, // IDR slice, 4 bytes
	}
	for _, mtu := range []uint16{1, 2} {
		pck := H264Payloader{}
		if res := pck.Payload(mtu, accessUnit); len(res) != 0 {
			t.Fatalf("MTU %d: got %x, want nothing", mtu, res)
		}
		if res := pck.Payload(mtu, []byte{0x0a}); len(res) != 0 { // end of sequence, 1 byte
			t.Fatalf("MTU %d: got %x, want nothing", mtu, res)
		}
	}

	// MTU 3 is the first usable one: single NAL unit + 3 FU-A fragments
	pck := H264Payloader{}
	if res := pck.Payload(3, accessUnit); len(res) != 4 {
		t.Fatalf("MTU 3: got %x", res)
	}
}
