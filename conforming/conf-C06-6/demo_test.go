package rtp

import (
	"bytes"
	"testing"
)

type demoPayloader struct{}

// like the G.711/G.722/Opus payloaders: the fragments are sub-slices of the sample
func (demoPayloader) Payload(mtu uint16, payload []byte) [][]byte {
	var out [][]byte
	for len(payload) > int(mtu) {
		out = append(out, payload[:mtu])
		payload = payload[mtu:]
	}

	return append(out, payload)
}

// The packets own their payload bytes: a caller that refills its sample buffer for the next
// frame does not rewrite the packets it has not sent yet.
func TestDemoPacketizeDoesNotAliasTheSample(t *testing.T) {
	pktz := NewPacketizer(100, 96, 0xCAFE, demoPayloader{}, NewFixedSequencer(10), 8000)

	sample := make([]byte, 200)
	for i := range sample {
		sample[i] = byte(i)
	}
	want := append([]byte(nil), sample...)

	pkts := pktz.Packetize(sample, 200)
	if len(pkts) != 3 {
		t.Fatalf("%d packets", len(pkts))
	}
	// the fragments are carried unchanged and in order
	var got []byte
	for _, p := range pkts {
		got = append(got, p.Payload...)
	}
	if !bytes.Equal(got, want) || len(pkts[0].Payload) != 88 {
		t.Fatalf("fragments changed")
	}

	// the caller reuses its buffer
	for i := range sample {
		sample[i] = 0xEE
	}
	got = got[:0]
	for _, p := range pkts {
		got = append(got, p.Payload...)
	}
	if !bytes.Equal(got, want) {
		t.Fatalf("queued packets were rewritten through the caller's buffer: % x ...", got[:8])
	}
}
