package codecs

import (
	"errors"
	"strings"
	"testing"
)

// Descriptors that are cut short are still rejected with an error that `errors.Is`
// errShortPacket, but the error now says which field is missing. Original: the bare sentinel
// "packet is not large enough" for every truncation.
func TestDemoVP8TruncationErrorsNameTheField(t *testing.T) {
	cases := []struct {
		in   []byte
		want string
	}{
		{[]byte{0x80}, "extension octet"},
		{[]byte{0x80, 0x80}, "PictureID"},
		{[]byte{0x80, 0x80, 0x81}, "extended PictureID"},
		{[]byte{0x80, 0x40}, "TL0PICIDX"},
		{[]byte{0x80, 0xF0, 0x81, 0x23, 0x45}, "TID/Y/KEYIDX"},
	}
	for _, c := range cases {
		out, err := (&VP8Packet{}).Unmarshal(c.in)
		if out != nil || err == nil {
			t.Fatalf("%x: truncated descriptor accepted", c.in)
		}
		if !errors.Is(err, errShortPacket) {
			t.Fatalf("%x: error %q is not errShortPacket", c.in, err)
		}
		if !strings.Contains(err.Error(), c.want) {
			t.Fatalf("%x: error %q does not name %q", c.in, err, c.want)
		}
	}
	// complete descriptors are decoded as before
	p := &VP8Packet{}
	out, err := p.Unmarshal([]byte{0x90, 0xF0, 0x81, 0x23, 0x45, 0xA7, 0xEE})
	if err != nil || len(out) != 1 || out[0] != 0xEE || p.PictureID != 0x0123 || p.TL0PICIDX != 0x45 ||
		p.TID != 2 || p.Y != 1 || p.KEYIDX != 7 || p.S != 1 {
		t.Fatalf("complete descriptor: %x %v %+v", out, err, p)
	}
}
