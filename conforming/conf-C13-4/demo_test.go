package codecs

import (
	"bytes"
	"testing"
)

// frame OBU (T=1,S=0) | tile list OBU (T=2,S=0) | frame OBU (T=1,S=0).
// The tile list is removed by the payloader, so the two frame OBUs - same layer - can travel
// in one packet: its layer ids must not split them.
func TestDemoAV1RemovedTileListDoesNotSplitPackets(t *testing.T) {
	const (
		frameHdr    = 0x36 // type 6, extension flag, has_size_field
		tileListHdr = 0x46 // type 8, extension flag, has_size_field
		layerT1S0   = 0x20
		layerT2S0   = 0x40
	)
	input := []byte{
		frameHdr, layerT1S0, 3, 0xA1, 0xA2, 0xA3,
		tileListHdr, layerT2S0, 2, 0xB1, 0xB2,
		frameHdr, layerT1S0, 2, 0xC1, 0xC2,
	}

	packets := (&AV1Payloader{}).Payload(1200, input)

	// what the receiver gets is the same either way: both frame OBUs, with size fields
	depacketizer := &AV1Depacketizer{}
	var stream []byte
	for _, pkt := range packets {
		out, err := depacketizer.Unmarshal(pkt)
		if err != nil {
			t.Fatal(err)
		}
		stream = append(stream, out...)
	}
	want := []byte{
		frameHdr, layerT1S0, 3, 0xA1, 0xA2, 0xA3,
		frameHdr, layerT1S0, 2, 0xC1, 0xC2,
	}
	if !bytes.Equal(stream, want) {
		t.Fatalf("depacketized % x, want % x", stream, want)
	}

	// W=2: first element length-prefixed, second one fills the rest
	expected := []byte{
		0x20,
		5, 0x34, layerT1S0, 0xA1, 0xA2, 0xA3,
		0x34, layerT1S0, 0xC1, 0xC2,
	}
	if len(packets) != 1 || !bytes.Equal(packets[0], expected) {
		t.Fatalf("got %d packets % x, want one packet % x", len(packets), packets, expected)
	}
}
