package rtp

import (
	"errors"
	"io"
	"testing"
)

// A legacy (RFC 3550) header extension whose value is not a whole number of 32-bit words cannot be
// encoded. The original code reports this as io.ErrShortBuffer even when the destination is huge,
// which sends callers looking for a buffer problem. With the change the error names the real cause
// and is distinct from io.ErrShortBuffer.
func TestDemoLegacyExtensionSizeErrorIsNotShortBuffer(t *testing.T) {
	p := Packet{
		Header: Header{
			Version: 2, Extension: true, ExtensionProfile: 0x1234,
		},
		Payload: []byte{1},
	}
	if err := p.SetExtension(0, []byte{1, 2, 3, 4, 5}); err != nil { // 5 octets: not a multiple of 4
		t.Fatal(err)
	}

	dst := make([]byte, 1500) // more than enough room
	_, err := p.MarshalTo(dst)
	if err == nil {
		t.Fatal("MarshalTo accepted a 5-octet legacy extension")
	}
	if errors.Is(err, io.ErrShortBuffer) {
		t.Errorf("MarshalTo into a 1500-octet buffer reports a short buffer: %v", err)
	}
	if _, err = p.Header.Marshal(); err == nil || errors.Is(err, io.ErrShortBuffer) {
		t.Errorf("Header.Marshal: %v", err)
	}
	if _, err = p.Marshal(); err == nil || errors.Is(err, io.ErrShortBuffer) {
		t.Errorf("Packet.Marshal: %v", err)
	}
}
