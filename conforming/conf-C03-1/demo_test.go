package rtp

import "testing"

// The standalone extension views index buf[0:2] (and later payload[2:4]) without a length check,
// so a buffer that is too short to hold the 4-octet "defined by profile | length" header makes
// Unmarshal panic in the original code. With the change they return an error instead.
func TestDemoExtensionViewsRejectShortBuffer(t *testing.T) {
	views := map[string]HeaderExtension{
		"one-byte": &OneByteHeaderExtension{},
		"two-byte": &TwoByteHeaderExtension{},
		"raw":      &RawExtension{},
	}
	for name, v := range views {
		for _, in := range [][]byte{nil, {}, {0xBE}} {
			func() {
				defer func() {
					if r := recover(); r != nil {
						t.Errorf("%s: Unmarshal(%v) panicked: %v", name, in, r)
					}
				}()
				if n, err := v.Unmarshal(in); err == nil || n != 0 {
					t.Errorf("%s: Unmarshal(%v) = %d, %v; want an error", name, in, n, err)
				}
			}()
		}
	}

	// a profile word without the length word is refused too (before: accepted, GetIDs then panics)
	if _, err := (&OneByteHeaderExtension{}).Unmarshal([]byte{0xBE, 0xDE, 0x00}); err == nil {
		t.Errorf("one-byte: 3-octet block accepted")
	}
}
