package rtp

import (
	"bytes"
	"errors"
	"io"
	"testing"
)

// The destination has room for the header but not for the whole packet. Both versions answer
// io.ErrShortBuffer, but the original has already serialised the header into the destination by
// then. With the change a failed MarshalTo leaves the destination exactly as it was.
func TestDemoFailedMarshalToLeavesDestinationUntouched(t *testing.T) {
	p := &Packet{
		Header:  Header{Version: 2, Marker: true, PayloadType: 96, SequenceNumber: 0x1234, Timestamp: 5, SSRC: 6},
		Payload: []byte{1, 2, 3, 4, 5, 6, 7, 8},
	}
	size := p.MarshalSize() // 20
	for l := 12; l < size; l++ {
		dst := bytes.Repeat([]byte{0xEE}, l)
		n, err := p.MarshalTo(dst)
		if !errors.Is(err, io.ErrShortBuffer) || n != 0 {
			t.Fatalf("len %d: n=%d err=%v", l, n, err)
		}
		if !bytes.Equal(dst, bytes.Repeat([]byte{0xEE}, l)) {
			t.Errorf("len %d: failed MarshalTo modified the destination: %x", l, dst)
		}
	}
}
