package rtp

import "testing"

// P bit set but the last octet (the padding count, which includes itself) is 0: not a valid RTP
// packet under RFC 3550 section 5.1. The original decoder accepts it (Padding=true, PaddingSize=0,
// a packet that Marshal then refuses); with the change Packet.Unmarshal rejects it.
func TestDemoUnmarshalRejectsZeroPaddingCount(t *testing.T) {
	raw := []byte{0xa0, 0x60, 0x00, 0x01, 0x00, 0x00, 0x00, 0x02, 0x00, 0x00, 0x00, 0x03, 0xde, 0xad, 0x00}
	var p Packet
	if err := p.Unmarshal(raw); err == nil {
		t.Fatalf("accepted a packet with P=1 and padding count 0: %+v", p)
	}

	// a correct count is still accepted
	raw[len(raw)-1] = 1
	if err := p.Unmarshal(raw); err != nil || p.PaddingSize != 1 || len(p.Payload) != 2 {
		t.Fatalf("padding count 1: err=%v size=%d payload=%v", err, p.PaddingSize, p.Payload)
	}
}
