package codecs

import (
	"bytes"
	"testing"
)

// SID is a 3-bit field and the scalability structure (N_S, 3 bits) may announce up to 8 spatial
// layers: packets of layers 5, 6 and 7 are valid and must be parsed.
func TestDemoVP9PacketAcceptsSpatialLayers5to7(t *testing.T) {
	for sid := uint8(0); sid < 8; sid++ {
		pck := VP9Packet{}
		// I=1 L=1 B=1 E=1 | PictureID 0x11 | TID=1 U=0 SID=sid D=1 | TL0PICIDX 9 | payload
		res, err := pck.Unmarshal([]byte{0xac, 0x11, 0x20 | sid<<1 | 0x01, 0x09, 0xde, 0xad})
		if err != nil {
			t.Fatalf("SID %d: %v", sid, err)
		}
		if pck.SID != sid || pck.TID != 1 || !pck.D || pck.TL0PICIDX != 9 ||
			!bytes.Equal(res, []byte{0xde, 0xad}) {
			t.Fatalf("SID %d: parsed %+v, payload %x", sid, pck, res)
		}
	}
}
