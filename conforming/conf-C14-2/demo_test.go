package codecs

import (
	"errors"
	"testing"
)

// An aggregation packet with three aggregation units whose third unit was cut short. The
// original parser silently reports an aggregation packet with two units; with the change the
// packet is rejected as truncated.
func TestDemoH265AggregationPacketWithCutUnitIsRejected(t *testing.T) {
	complete := []byte{
		0x60, 0x01, // PayloadHdr, type 48
		0x00, 0x03, 0x02, 0x01, 0xAA, // unit 1
		0x00, 0x03, 0x02, 0x01, 0xBB, // unit 2
		0x00, 0x04, 0x02, 0x01, 0xCC, 0xDD, // unit 3
	}

	pkt := &H265Packet{}
	if _, err := pkt.Unmarshal(complete); err != nil {
		t.Fatalf("complete packet: %v", err)
	}
	ap, ok := pkt.Packet().(*H265AggregationPacket)
	if !ok || len(ap.OtherUnits()) != 2 {
		t.Fatalf("complete packet: want 3 units, got %T %+v", pkt.Packet(), pkt.Packet())
	}

	// Cut inside the third unit: in its payload, and in its size field.
	for _, cut := range []int{1, 2, 3, 5} {
		truncated := complete[:len(complete)-cut]

		_, err := (&H265Packet{}).Unmarshal(truncated)
		if !errors.Is(err, errShortPacket) {
			t.Errorf("H265Packet, %d bytes cut: want errShortPacket, got %v", cut, err)
		}

		_, err = (&H265AggregationPacket{}).Unmarshal(truncated)
		if !errors.Is(err, errShortPacket) {
			t.Errorf("H265AggregationPacket, %d bytes cut: want errShortPacket, got %v", cut, err)
		}
	}

	// Cutting the third unit off completely leaves a well-formed packet with two units.
	if _, err := pkt.Unmarshal(complete[:12]); err != nil {
		t.Fatalf("two units: %v", err)
	}
}
