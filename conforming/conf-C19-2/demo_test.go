package rtp

import (
	"errors"
	"testing"
)

// First byte 0xC1: RID=3, NS-1=0 (one RTP stream), sl_bm=0001. The allocation claims to be sent on
// RTP stream 3 of 1 - something Marshal can never produce (it rejects it with
// ErrVLAInvalidStreamID). The original Unmarshal accepts it; with the change it is rejected with
// the same error value Marshal uses.
func TestDemoVLAUnmarshalRejectsStreamIDBeyondCount(t *testing.T) {
	payload := []byte{0xC1, 0x00, 0x64} // 1 spatial layer, 1 temporal layer, 100 kbps

	var vla VLA
	n, err := vla.Unmarshal(payload)
	if !errors.Is(err, ErrVLAInvalidStreamID) {
		t.Fatalf("want ErrVLAInvalidStreamID, got n=%d err=%v vla=%+v", n, err, vla)
	}
	if n < 0 || n > len(payload) {
		t.Fatalf("reported %d consumed bytes of %d", n, len(payload))
	}

	// What was accepted before cannot be sent back out either way.
	if _, err = (VLA{RTPStreamID: 3, RTPStreamCount: 1}).Marshal(); !errors.Is(err, ErrVLAInvalidStreamID) {
		t.Fatalf("Marshal: %v", err)
	}

	// The same allocation with a stream id inside the count decodes as before.
	payload[0] = 0x01
	n, err = vla.Unmarshal(payload)
	if err != nil || n != 3 || vla.RTPStreamID != 0 || vla.RTPStreamCount != 1 ||
		len(vla.ActiveSpatialLayer) != 1 || vla.ActiveSpatialLayer[0].TargetBitrates[0] != 100 {
		t.Fatalf("valid payload: n=%d err=%v vla=%+v", n, err, vla)
	}
}
