package rtp

import (
	"bytes"
	"testing"
)

// PaddingSize means something only when the P bit is set. A packet with P = 0 and a leftover
// count is not a well-formed packet (it marshals to stray trailing octets that a receiver
// takes for payload). Clone returns the well-formed reading of it: no padding.
func TestDemoCloneDropsPaddingCountWithoutPBit(t *testing.T) {
	p := &Packet{
		Header:      Header{Version: 2, PayloadType: 96, SequenceNumber: 1, Padding: false},
		Payload:     []byte{1, 2, 3},
		PaddingSize: 4, // left over, P bit not set
	}
	clone := p.Clone()
	if clone.PaddingSize != 0 {
		t.Fatalf("clone of a packet without P bit has PaddingSize %d", clone.PaddingSize)
	}
	raw, err := clone.Marshal()
	if err != nil {
		t.Fatal(err)
	}
	back := &Packet{}
	if err = back.Unmarshal(raw); err != nil {
		t.Fatal(err)
	}
	if !bytes.Equal(back.Payload, []byte{1, 2, 3}) {
		t.Fatalf("the clone's wire image carries payload %x", back.Payload)
	}
}

// A well-formed padded packet is cloned with its padding size, as before.
func TestDemoCloneKeepsPaddingOfPaddedPacket(t *testing.T) {
	raw := []byte{0xa0, 0x60, 0, 1, 0, 0, 0, 2, 0, 0, 0, 3, 9, 8, 7, 0, 0, 3}
	p := &Packet{}
	if err := p.Unmarshal(raw); err != nil {
		t.Fatal(err)
	}
	clone := p.Clone()
	if !clone.Padding || clone.PaddingSize != 3 {
		t.Fatalf("padding lost: %v %d", clone.Padding, clone.PaddingSize)
	}
	out, err := clone.Marshal()
	if err != nil || !bytes.Equal(out, raw) {
		t.Fatalf("%x %v", out, err)
	}
}
