package codecs

import (
	"bytes"
	"testing"
)

// An FU-A whose header has both the S and the E bit (forbidden by RFC 6184 section 5.8).
// The original turns it into a NAL unit, the changed depacketizer rejects it and forgets any
// pending fragment. The H264Payloader never makes such a packet, and an intact fragmented unit
// afterwards decodes exactly as on a fresh depacketizer.
func TestDemoH264RejectsFUAWithStartAndEnd(t *testing.T) {
	depacketizer := &H264Packet{}

	// leave a pending fragment behind
	if out, err := depacketizer.Unmarshal([]byte{0x7C, 0x85, 0xA1, 0xA2}); err != nil || len(out) != 0 {
		t.Fatalf("start fragment: %x %v", out, err)
	}

	out, err := depacketizer.Unmarshal([]byte{0x7C, 0xC5, 0x01, 0x02}) // S=1 E=1 type 5
	if err == nil {
		t.Fatalf("FU-A with S and E accepted: %x", out)
	}
	if len(out) != 0 {
		t.Fatalf("output together with an error: %x", out)
	}

	// a stray end fragment now finds nothing of the abandoned unit
	out, err = depacketizer.Unmarshal([]byte{0x7C, 0x45, 0xB1})
	if err != nil || !bytes.Equal(out, []byte{0, 0, 0, 1, 0x65, 0xB1}) {
		t.Fatalf("stray end fragment: %x %v", out, err)
	}

	// no MTU makes the payloader send a unit as one FU
	for mtu := uint16(3); mtu < 40; mtu++ {
		nalu := bytes.Repeat([]byte{0x65}, 41)
		for _, pkt := range (&H264Payloader{}).Payload(mtu, nalu) {
			if pkt[0]&0x1F == 28 && pkt[1]&0xC0 == 0xC0 {
				t.Fatalf("mtu %d: payloader sent an FU-A with S and E", mtu)
			}
		}
	}

	frame := (&H264Payloader{}).Payload(5, []byte{0x65, 1, 2, 3, 4, 5, 6, 7})
	fresh := &H264Packet{}
	var all []byte
	for i, pkt := range frame {
		got, gotErr := depacketizer.Unmarshal(pkt)
		want, wantErr := fresh.Unmarshal(pkt)
		if gotErr != nil || wantErr != nil || !bytes.Equal(got, want) {
			t.Fatalf("packet %d: %x (%v) != %x (%v)", i, got, gotErr, want, wantErr)
		}
		all = append(all, got...)
	}
	if !bytes.Equal(all, []byte{0, 0, 0, 1, 0x65, 1, 2, 3, 4, 5, 6, 7}) {
		t.Fatalf("reassembled unit: %x", all)
	}
}
