package codecs

import (
	"bytes"
	"testing"
)

// An 11-byte IDR slice with MTU 10 needs two FU-A fragments (8 payload bytes fit in one).
// Original: fragments carry 8 + 2 bytes. Patched: 5 + 5 bytes. Both decode to the same unit.
func TestDemoH264BalancedFUA(t *testing.T) {
	nalu := []byte{0x65, 1, 2, 3, 4, 5, 6, 7, 8, 9, 10}
	frags := (&H264Payloader{}).Payload(10, nalu)
	if len(frags) != 2 {
		t.Fatalf("expected 2 fragments, got %d", len(frags))
	}
	if len(frags[0]) != 2+5 || len(frags[1]) != 2+5 {
		t.Fatalf("expected fragments of 5+5 payload bytes, got %d+%d", len(frags[0])-2, len(frags[1])-2)
	}
	// RFC 6184 shape
	if frags[0][0] != 0x7c || frags[0][1] != 0x85 || frags[1][0] != 0x7c || frags[1][1] != 0x45 {
		t.Fatalf("bad FU indicator/header: %x %x", frags[0][:2], frags[1][:2])
	}
	// and lossless
	d := &H264Packet{}
	var got []byte
	for _, f := range frags {
		out, err := d.Unmarshal(f)
		if err != nil {
			t.Fatal(err)
		}
		got = append(got, out...)
	}
	if !bytes.Equal(got, append([]byte{0, 0, 0, 1}, nalu...)) {
		t.Fatalf("round trip failed: %x", got)
	}
}
