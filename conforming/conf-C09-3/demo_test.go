package codecs

import (
	"errors"
	"testing"
)

// A nil payload: the original AV1Depacketizer reports "packet is not large enough",
// the patched one reports "invalid nil packet" like VP8Packet, VP9Packet, OpusPacket,
// H265Packet and the deprecated AV1Packet do.
func TestDemoAV1DepacketizerNilPacket(t *testing.T) {
	d := &AV1Depacketizer{}
	out, err := d.Unmarshal(nil)
	if out != nil || err == nil {
		t.Fatalf("nil must be refused, got %x %v", out, err)
	}
	if !errors.Is(err, errNilPacket) {
		t.Fatalf("expected %q, got %q", errNilPacket, err)
	}
	_, ref := (&VP8Packet{}).Unmarshal(nil)
	if err.Error() != ref.Error() {
		t.Fatalf("error differs from the other depacketizers: %q vs %q", err, ref)
	}

	// empty and one-byte payloads are still "short"
	for _, b := range [][]byte{{}, {0x10}} {
		if _, err := d.Unmarshal(b); !errors.Is(err, errShortPacket) {
			t.Fatalf("%x: expected errShortPacket, got %v", b, err)
		}
	}
}
