package codecs

import (
	"bytes"
	"testing"
)

// Non-flexible mode, input whose VP9 uncompressed header does not parse (frame_marker != 2,
// and a key frame with a wrong sync code). Original: the data is dropped (no packets).
// Patched: it is forwarded as a non key frame without scalability structure.
func TestDemoVP9NonFlexibleForwardsUnparsableFrames(t *testing.T) {
	for _, frame := range [][]byte{
		{0x00, 0x01, 0x02, 0x03, 0x04},             // frame_marker 0
		{0x82, 0x49, 0x83, 0x00, 0x00, 0x77, 0xf0}, // key frame, wrong frame_sync_byte_2
		{0x82, 0x49},                               // key frame header truncated
	} {
		p := &VP9Payloader{InitialPictureIDFn: func() uint16 { return 0x1234 }}
		pls := p.Payload(6, frame)
		if len(pls) == 0 {
			t.Fatalf("frame %x was dropped", frame)
		}
		var got []byte
		for i, pl := range pls {
			if len(pl) > 6 {
				t.Fatalf("packet larger than MTU: %x", pl)
			}
			d := &VP9Packet{}
			b, err := d.Unmarshal(pl)
			if err != nil {
				t.Fatal(err)
			}
			if d.B != (i == 0) || d.E != (i == len(pls)-1) || d.V || !d.P || d.F || d.PictureID != 0x1234 {
				t.Fatalf("unexpected descriptor on packet %d: %+v", i, d)
			}
			got = append(got, b...)
		}
		if !bytes.Equal(got, frame) {
			t.Fatalf("got %x want %x", got, frame)
		}
	}
	// empty input still produces nothing
	if pls := (&VP9Payloader{}).Payload(100, []byte{}); len(pls) != 0 {
		t.Fatalf("empty input produced %x", pls)
	}
}
