package codecs

import (
	"bytes"
	"testing"
)

// A NAL unit sent as three FU-A packets of which the first (start) one is lost. The original
// depacketizer emits, on the end fragment, a "NAL unit" made of the unit's middle and tail only;
// with the change the headless unit is skipped. The following intact frame decodes the same.
func TestDemoH264FragmentsWithoutStartAreSkipped(t *testing.T) {
	middle := []byte{0x7c, 0x05, 0x11, 0x12} // FU-A, NRI 3, type 5, no S, no E
	end := []byte{0x7c, 0x45, 0x13, 0x14}    // FU-A, E

	d := &H264Packet{}

	out, err := d.Unmarshal(middle)
	if err != nil || len(out) != 0 {
		t.Fatalf("middle fragment: %x %v", out, err)
	}
	out, err = d.Unmarshal(end)
	if err != nil {
		t.Fatal(err)
	}
	if len(out) != 0 {
		t.Fatalf("a unit whose start fragment was lost must not be emitted, got %x", out)
	}

	// next frame: an intact fragmented unit
	next := [][]byte{{0x7c, 0x85, 0x21}, {0x7c, 0x05, 0x22}, {0x7c, 0x45, 0x23}}
	fresh := &H264Packet{}
	for i, pkt := range next {
		got, err1 := d.Unmarshal(pkt)
		want, err2 := fresh.Unmarshal(pkt)
		if err1 != nil || err2 != nil || !bytes.Equal(got, want) {
			t.Fatalf("packet %d of the next frame: %x (%v) vs fresh %x (%v)", i, got, err1, want, err2)
		}
		if i == 2 && !bytes.Equal(got, []byte{0, 0, 0, 1, 0x65, 0x21, 0x22, 0x23}) {
			t.Fatalf("next frame decoded to %x", got)
		}
	}
}
