package frame

import (
	"reflect"
	"testing"

	"github.com/pion/rtp/codecs"
)

// Packet 1 ends with the first fragment of an OBU (Y=1); the packet carrying its continuation is
// lost. Packet 3 starts a new OBU (Z=0) that is fragmented as well (Y=1), packet 4 completes it.
// The original assembler glues the orphaned fragment of packet 1 in front of the new OBU.
func TestDemoAV1FrameDropsOrphanedFragment(t *testing.T) {
	f := &AV1{}

	out, err := f.ReadFrames(&codecs.AV1Packet{Y: true, W: 1, OBUElements: [][]byte{{0x30, 0xAA}}})
	if err != nil || len(out) != 0 {
		t.Fatalf("packet 1: %x %v", out, err)
	}

	// packet 2 (Z=1) lost

	out, err = f.ReadFrames(&codecs.AV1Packet{Z: false, Y: true, W: 1, OBUElements: [][]byte{{0x30, 0xB1}}})
	if err != nil || len(out) != 0 {
		t.Fatalf("packet 3: %x %v", out, err)
	}

	out, err = f.ReadFrames(&codecs.AV1Packet{Z: true, W: 1, OBUElements: [][]byte{{0xB2}}})
	if err != nil {
		t.Fatal(err)
	}
	want := [][]byte{{0x30, 0xB1, 0xB2}}
	if !reflect.DeepEqual(out, want) {
		t.Fatalf("got %x, want %x", out, want)
	}
}
