package codecs

import (
	"bytes"
	"testing"
)

// An inter frame whose frame tag announces a first partition of 20 bytes (so the first
// partition ends at offset 3+20 = 23), followed by 37 bytes of token partition data.
func TestDemoVP8PayloaderEndsPacketAtFirstPartitionBoundary(t *testing.T) {
	const firstPartSize = 20
	frame := make([]byte, 60)
	for i := range frame {
		frame[i] = byte(i)
	}
	tag := uint32(0x01) | uint32(0x10) | uint32(firstPartSize)<<5 // inter frame, show_frame
	frame[0], frame[1], frame[2] = byte(tag), byte(tag>>8), byte(tag>>16)

	pck := VP8Payloader{}
	packets := pck.Payload(41, frame) // room for 40 frame bytes per packet

	var sizes []int
	var joined []byte
	for i, raw := range packets {
		var pkt VP8Packet
		if _, err := pkt.Unmarshal(raw); err != nil {
			t.Fatal(err)
		}
		if (pkt.S == 1) != (i == 0) || pkt.PID != 0 {
			t.Fatalf("packet %d: S=%d PID=%d", i, pkt.S, pkt.PID)
		}
		sizes = append(sizes, len(pkt.Payload))
		joined = append(joined, pkt.Payload...)
	}
	if !bytes.Equal(joined, frame) {
		t.Fatal("frame not reproduced")
	}

	// No packet may contain bytes of both the first partition and the token partitions.
	if len(sizes) != 2 || sizes[0] != 23 || sizes[1] != 37 {
		t.Fatalf("fragment sizes %v, want [23 37]", sizes)
	}
}
