package codecs

import (
	"bytes"
	"testing"
)

// A temporal unit made of a frame OBU followed by a padding OBU (type 15).
// Original: both OBUs are transmitted. Patched: the padding OBU is dropped.
func TestDemoAV1PayloaderDropsPadding(t *testing.T) {
	frame := []byte{0x32, 0x03, 0xAA, 0xBB, 0xCC}         // OBU_FRAME, has_size, size 3
	padding := []byte{0x7A, 0x04, 0x00, 0x00, 0x00, 0x80} // OBU_PADDING, has_size, size 4
	in := append(append([]byte{}, frame...), padding...)
	inCopy := append([]byte{}, in...)

	got := (&AV1Payloader{}).Payload(1200, in)
	if !bytes.Equal(in, inCopy) {
		t.Fatal("input modified")
	}
	if len(got) != 1 {
		t.Fatalf("expected one packet, got %x", got)
	}
	// what a receiver gets out of it: only the frame OBU
	out, err := (&AV1Depacketizer{}).Unmarshal(got[0])
	if err != nil {
		t.Fatal(err)
	}
	if !bytes.Equal(out, frame) {
		t.Fatalf("expected only the frame OBU %x on the wire, receiver got %x (packet %x)", frame, out, got[0])
	}

	// a temporal unit that consists of padding only produces no packet
	if got := (&AV1Payloader{}).Payload(1200, padding); len(got) != 0 {
		t.Fatalf("padding-only input should produce no packets, got %x", got)
	}
}
