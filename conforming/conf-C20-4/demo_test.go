package rtp

import (
	"strings"
	"testing"
)

// Packet.String also reports the CSRC list, the header extensions and the padding size.
// It stays a function of the fields Clone copies: original and clone print the same text,
// and editing one of them afterwards only changes that one's text.
func TestDemoStringReportsCSRCExtensionsAndPadding(t *testing.T) {
	raw := []byte{
		0xb2, 0x60, 0x00, 0x07, 0x00, 0x00, 0x00, 0x02, 0x00, 0x00, 0x00, 0x03,
		0x00, 0x00, 0x00, 0x0A, 0x00, 0x00, 0x00, 0x0B, // 2 CSRC
		0xBE, 0xDE, 0x00, 0x01, 0x51, 0xAA, 0xBB, 0x00, // id 5 = aa bb
		0x01, 0x02, 0x03, // payload
		0x00, 0x00, 0x03, // padding
	}
	p := &Packet{}
	if err := p.Unmarshal(raw); err != nil {
		t.Fatal(err)
	}
	text := p.String()
	for _, want := range []string{
		"\tSequence Number: 7\n", "\tPayload Length: 3\n", // as before
		"\tCSRC: [10 11]\n", "\tExtension Profile: 0xBEDE\n", "\tExtension 5: aa bb\n", "\tPadding Size: 3\n",
	} {
		if !strings.Contains(text, want) {
			t.Fatalf("String() lacks %q:\n%s", want, text)
		}
	}

	clone := p.Clone()
	if clone.String() != text {
		t.Fatalf("clone prints differently:\n%s", clone.String())
	}
	if err := clone.SetExtension(5, []byte{0xCC}); err != nil {
		t.Fatal(err)
	}
	clone.CSRC[0] = 99
	if p.String() != text {
		t.Fatal("editing the clone changed what the original reports")
	}
	if !strings.Contains(clone.String(), "\tExtension 5: cc\n") || !strings.Contains(clone.String(), "\tCSRC: [99 11]\n") {
		t.Fatalf("clone:\n%s", clone.String())
	}
}
