package codecs

import "testing"

// A 2+8 byte NAL unit at MTU 10 (7 payload bytes per FU at most): the original sends FUs
// with 7 and 1 payload bytes, the changed payloader sends two FUs with 4 payload bytes each.
func TestDemoH265BalancedFragmentationUnits(t *testing.T) {
	nalu := []byte{0x26, 0x01, 1, 2, 3, 4, 5, 6, 7, 8} // type 19, layer 0, TID 1
	pkts := (&H265Payloader{}).Payload(10, nalu)
	if len(pkts) != 2 {
		t.Fatalf("expected 2 FUs, got %d packets", len(pkts))
	}

	var sizes []int
	var rebuilt []byte
	for i, pkt := range pkts {
		hp := &H265Packet{}
		if _, err := hp.Unmarshal(pkt); err != nil {
			t.Fatalf("packet %d: %v", i, err)
		}
		fu, ok := hp.Packet().(*H265FragmentationUnitPacket)
		if !ok {
			t.Fatalf("packet %d is not an FU", i)
		}
		if fu.FuHeader().S() != (i == 0) || fu.FuHeader().E() != (i == len(pkts)-1) {
			t.Fatalf("packet %d: wrong S/E bits", i)
		}
		sizes = append(sizes, len(fu.Payload()))
		rebuilt = append(rebuilt, fu.Payload()...)
	}
	if string(rebuilt) != string(nalu[2:]) {
		t.Fatalf("reassembly differs: %v", rebuilt)
	}
	if sizes[0] != 4 || sizes[1] != 4 {
		t.Fatalf("FU payload sizes %v, want [4 4]", sizes)
	}
}
