package rtp

import "testing"

// A packet whose P bit is set but whose last octet (the padding count) is zero is not
// well-formed under RFC 3550 section 5.1. With the change Unmarshal refuses it.
func TestDemoUnmarshalRefusesZeroPaddingCount(t *testing.T) {
	raw := []byte{
		0xa0, 0x60, 0x00, 0x01, // V=2, P=1, PT=96, seq=1
		0x00, 0x00, 0x00, 0x02, // timestamp
		0x00, 0x00, 0x00, 0x03, // SSRC
		0xde, 0xad, 0xbe, 0x00, // payload, last octet (padding count) is 0
	}
	p := &Packet{}
	if err := p.Unmarshal(raw); err == nil {
		t.Fatalf("Unmarshal accepted a packet with the P bit set and a zero padding count (PaddingSize=%d)", p.PaddingSize)
	}

	// a well-formed padded packet is still accepted and decoded as before
	raw[len(raw)-1] = 2
	if err := p.Unmarshal(raw); err != nil {
		t.Fatalf("well-formed padded packet refused: %v", err)
	}
	if p.PaddingSize != 2 || len(p.Payload) != 2 || p.Payload[0] != 0xde || p.Payload[1] != 0xad {
		t.Fatalf("wrong decode: padding %d payload %x", p.PaddingSize, p.Payload)
	}
}
