package codecs

import "testing"

// A packet whose payload descriptor is cut short is rejected by VP8Packet.Unmarshal;
// it must not be reported as the head of a partition either.
func TestDemoVP8IsPartitionHeadRejectsTruncatedDescriptor(t *testing.T) {
	for _, payload := range [][]byte{
		{0x90},             // X=1 S=1, extension octet missing
		{0x90, 0x80},       // I=1, picture id missing
		{0x90, 0x80, 0x81}, // M=1, second picture id octet missing
		{0x90, 0x40},       // L=1, TL0PICIDX missing
		{0x90, 0x30},       // T=1 K=1, TID/KEYIDX octet missing
	} {
		var pkt VP8Packet
		if _, err := pkt.Unmarshal(payload); err == nil {
			t.Fatalf("% x: expected Unmarshal to reject the payload", payload)
		}
		if pkt.IsPartitionHead(payload) {
			t.Errorf("% x: VP8Packet.IsPartitionHead = true for a payload Unmarshal rejects", payload)
		}
		if (&VP8PartitionHeadChecker{}).IsPartitionHead(payload) {
			t.Errorf("% x: VP8PartitionHeadChecker.IsPartitionHead = true", payload)
		}
	}

	// complete descriptors are judged by their S bit, as before
	if !(&VP8Packet{}).IsPartitionHead([]byte{0x90, 0x80, 0x81, 0x02}) ||
		!(&VP8Packet{}).IsPartitionHead([]byte{0x10}) ||
		(&VP8Packet{}).IsPartitionHead([]byte{0x80, 0x80, 0x81, 0x02}) {
		t.Error("complete descriptor misjudged")
	}
}
