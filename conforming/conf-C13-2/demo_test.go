package obu

import "testing"

// A LEB128 value spread over 9 bytes. The AV1 specification (4.10.5) reads at most 8 bytes.
// The original decoder accepts it (and silently shifts the first byte out of its 64-bit
// accumulator); with the change it is rejected.
func TestDemoReadLeb128RejectsOverlongEncoding(t *testing.T) {
	overlong := []byte{0x81, 0x80, 0x80, 0x80, 0x80, 0x80, 0x80, 0x80, 0x00}

	v, n, err := ReadLeb128(overlong)
	if err == nil {
		t.Fatalf("9-byte LEB128 accepted: value=%d n=%d", v, n)
	}
	if v != 0 || n != 0 {
		t.Fatalf("error must come with zero value and length, got %d %d", v, n)
	}

	// 8 bytes are still fine, and the canonical encodings still round-trip.
	if v, n, err = ReadLeb128(overlong[1:]); err != nil || v != 0 || n != 8 {
		t.Fatalf("8-byte encoding of 0: %d %d %v", v, n, err)
	}
	for _, x := range []uint{0, 127, 128, 16383, 16384, 1<<32 - 1} {
		got, n, err := ReadLeb128(WriteToLeb128(x))
		if err != nil || got != x || int(n) != len(WriteToLeb128(x)) {
			t.Fatalf("round trip %d: %d %d %v", x, got, n, err)
		}
	}
}
