package rtp

import (
	"errors"
	"reflect"
	"testing"
)

// Width 0, height 70000 or frame rate 300 do not fit the 16/16/8 bit fields of a resolution record.
// The original silently truncates them (width 0 comes back as 65536), the changed Marshal refuses.
func TestDemoVLAMarshalRejectsUnencodableResolution(t *testing.T) {
	for _, layer := range []SpatialLayer{
		{TargetBitrates: []int{100}, Width: 0, Height: 720, Framerate: 30},
		{TargetBitrates: []int{100}, Width: 1280, Height: 70000, Framerate: 30},
		{TargetBitrates: []int{100}, Width: 1280, Height: 720, Framerate: 300},
		{TargetBitrates: []int{100}, Width: 1280, Height: 720, Framerate: -1},
	} {
		vla := VLA{
			RTPStreamCount:            1,
			ActiveSpatialLayer:        []SpatialLayer{layer},
			HasResolutionAndFramerate: true,
		}
		// (the changed code returns the new error value ErrVLAInvalidResolution)
		raw, err := vla.Marshal()
		if err == nil {
			t.Fatalf("%+v: accepted and sent as %x", layer, raw)
		}
		for _, other := range []error{
			ErrVLAInvalidStreamCount, ErrVLAInvalidStreamID, ErrVLAInvalidSpatialID,
			ErrVLADuplicateSpatialID, ErrVLAInvalidTemporalLayer, ErrVLATooShort,
		} {
			if errors.Is(err, other) {
				t.Fatalf("%+v: misleading error %v", layer, err)
			}
		}

		// without the resolution records the same fields are not looked at
		vla.HasResolutionAndFramerate = false
		if _, err := vla.Marshal(); err != nil {
			t.Fatalf("%+v: %v", layer, err)
		}
	}

	// the extremes that do fit still round-trip
	vla := VLA{
		RTPStreamCount: 1,
		ActiveSpatialLayer: []SpatialLayer{
			{SpatialID: 0, TargetBitrates: []int{100}, Width: 1, Height: 65536, Framerate: 0},
			{SpatialID: 1, TargetBitrates: []int{200, 300}, Width: 65536, Height: 1, Framerate: 255},
		},
		HasResolutionAndFramerate: true,
	}
	raw, err := vla.Marshal()
	if err != nil {
		t.Fatal(err)
	}
	var back VLA
	if n, err := back.Unmarshal(raw); err != nil || n != len(raw) || !reflect.DeepEqual(vla, back) {
		t.Fatalf("round trip: %v %d %+v", err, n, back)
	}
}
