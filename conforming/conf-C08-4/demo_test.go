package codecs

import (
	"encoding/binary"
	"testing"
)

// An aggregation packet consumes decoding order numbers: the packet that follows it must not
// reuse the DONL of the aggregation packet's first unit.
func TestDemoH265DONLAdvancesOverAggregationPacket(t *testing.T) {
	pck := H265Payloader{AddDONL: true}

	// two small NAL units: sent as one aggregation packet (DONL 0, second unit DOND 0 => DON 0 and 1)
	first := pck.Payload(100, []byte{
		0x00, 0x00, 0x01, 0x40, 0x01, 0xaa,
		0x00, 0x00, 0x01, 0x42, 0x01, 0xbb,
	})
	if len(first) != 1 || first[0][0]>>1 != 48 {
		t.Fatalf("expected one aggregation packet, got %x", first)
	}
	if donl := binary.BigEndian.Uint16(first[0][2:4]); donl != 0 {
		t.Fatalf("aggregation packet DONL = %d, want 0", donl)
	}

	// next call, same payloader: one NAL unit, sent as a single NAL unit packet with DONL
	second := pck.Payload(100, []byte{0x00, 0x00, 0x01, 0x26, 0x01, 0xcc})
	if len(second) != 1 || len(second[0]) != 5 {
		t.Fatalf("expected one single NAL unit packet with DONL, got %x", second)
	}
	if donl := binary.BigEndian.Uint16(second[0][2:4]); donl != 2 {
		t.Fatalf("DONL after an aggregation packet of two units = %d, want 2", donl)
	}
}
