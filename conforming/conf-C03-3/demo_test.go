package rtp

import (
	"bytes"
	"testing"
)

// A view is typically created over the extension block inside a received packet buffer. In the
// original code the view keeps the caller's slice, so a later Set appends into the spare capacity
// of that slice - i.e. over the RTP payload that follows the block in the packet buffer - and Del
// shifts the caller's octets. With the change Unmarshal keeps a private copy.
func TestDemoExtensionViewDoesNotWriteIntoCallerBuffer(t *testing.T) {
	pkt := []byte{
		0x90, 0x60, 0x00, 0x01, 0x00, 0x00, 0x00, 0x02, 0x00, 0x00, 0x00, 0x03,
		0xBE, 0xDE, 0x00, 0x01, 0x10, 0xAA, 0x20, 0xBB, // extension block
		0x01, 0x02, 0x03, 0x04, // RTP payload
	}
	orig := append([]byte(nil), pkt...)

	ext := &OneByteHeaderExtension{}
	if _, err := ext.Unmarshal(pkt[12:20]); err != nil {
		t.Fatal(err)
	}
	if err := ext.Set(3, []byte{0xEE}); err != nil {
		t.Fatal(err)
	}
	if !bytes.Equal(pkt, orig) {
		t.Errorf("Set wrote into the packet buffer:\n got  %x\n want %x", pkt, orig)
	}
	if err := ext.Del(1); err != nil {
		t.Fatal(err)
	}
	if !bytes.Equal(pkt, orig) {
		t.Errorf("Del wrote into the packet buffer:\n got  %x\n want %x", pkt, orig)
	}

	two := &TwoByteHeaderExtension{}
	blk := []byte{0x10, 0x00, 0x00, 0x01, 0x01, 0x01, 0xAA, 0x00}
	keep := append([]byte(nil), blk...)
	if _, err := two.Unmarshal(blk); err != nil {
		t.Fatal(err)
	}
	blk[6] = 0x55 // the caller reuses its buffer
	if got := two.Get(1); !bytes.Equal(got, []byte{0xAA}) {
		t.Errorf("two-byte view changed with the caller's buffer: Get(1) = %x", got)
	}
	out, _ := two.Marshal()
	if !bytes.Equal(out, keep) {
		t.Errorf("Marshal = %x, want %x", out, keep)
	}
}
