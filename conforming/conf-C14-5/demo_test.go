package codecs

import (
	"bytes"
	"testing"
)

// Two small NAL units of different layers (nuh_layer_id 0 and 1). The original payloader puts them
// into one aggregation packet whose header says LayerId 0; the changed payloader sends two single
// NAL unit packets. Two units of the same layer are still aggregated.
func TestDemoH265NoAggregationAcrossLayers(t *testing.T) {
	base := []byte{0x42, 0x01, 0xAA, 0xBB} // SPS, layer 0, TID 1
	enh := []byte{0x42, 0x09, 0xCC, 0xDD}  // SPS, layer 1, TID 1

	annexB := func(nalus ...[]byte) []byte {
		var out []byte
		for _, n := range nalus {
			out = append(out, 0, 0, 0, 1)
			out = append(out, n...)
		}

		return out
	}

	pkts := (&H265Payloader{}).Payload(100, annexB(base, enh))
	if len(pkts) != 2 || !bytes.Equal(pkts[0], base) || !bytes.Equal(pkts[1], enh) {
		t.Fatalf("units of different layers: want two single NAL unit packets, got %x", pkts)
	}

	// same layer: still one aggregation packet holding both units
	pkts = (&H265Payloader{}).Payload(100, annexB(enh, enh))
	if len(pkts) != 1 {
		t.Fatalf("units of the same layer: want one aggregation packet, got %x", pkts)
	}
	hp := &H265Packet{}
	if _, err := hp.Unmarshal(pkts[0]); err != nil {
		t.Fatal(err)
	}
	ap, ok := hp.Packet().(*H265AggregationPacket)
	if !ok || !bytes.Equal(ap.FirstUnit().NalUnit(), enh) || len(ap.OtherUnits()) != 1 ||
		!bytes.Equal(ap.OtherUnits()[0].NalUnit(), enh) {
		t.Fatalf("unexpected aggregation packet %x", pkts[0])
	}
	if hdr := H265NALUHeader(uint16(pkts[0][0])<<8 | uint16(pkts[0][1])); hdr.LayerID() != 1 || hdr.TID() != 1 {
		t.Fatalf("aggregation header %x", pkts[0][:2])
	}
}
