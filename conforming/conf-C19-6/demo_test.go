package rtp

import (
	"reflect"
	"testing"
)

// video-layers-allocation00 zero-pads the per-stream bitmasks and the #tl fields to a byte boundary.
// The original decoder ignores those bits, the changed one rejects an extension where they are set.
func TestDemoVLAUnmarshalRejectsNonZeroPadding(t *testing.T) {
	vla := VLA{
		RTPStreamCount: 3,
		ActiveSpatialLayer: []SpatialLayer{
			{RTPStreamID: 0, SpatialID: 0, TargetBitrates: []int{100}},
			{RTPStreamID: 1, SpatialID: 0, TargetBitrates: []int{200, 300}},
			{RTPStreamID: 1, SpatialID: 1, TargetBitrates: []int{400, 500}},
		},
	}
	raw, err := vla.Marshal()
	if err != nil {
		t.Fatal(err)
	}
	// RID/NS/sl_bm=0, sl0_bm|sl1_bm, sl2_bm|pad, #tl, bitrates
	want := []byte{0x20, 0x13, 0x00, 0x14, 100, 0xC8, 0x01, 0xAC, 0x02, 0x90, 0x03, 0xF4, 0x03}
	if !reflect.DeepEqual(raw, want) {
		t.Fatalf("marshal: %x", raw)
	}

	var back VLA
	if n, err := back.Unmarshal(raw); err != nil || n != len(raw) || !reflect.DeepEqual(vla, back) {
		t.Fatalf("round trip: %v %d %+v", err, n, back)
	}

	// padding nibble after the third per-stream bitmask
	bad := append([]byte{}, raw...)
	bad[2] |= 0x05
	if n, err := (&VLA{}).Unmarshal(bad); err == nil {
		t.Fatalf("non-zero bitmask padding accepted (consumed %d)", n)
	} else if n > len(bad) {
		t.Fatalf("consumed %d of %d", n, len(bad))
	}

	// unused fourth #tl field
	bad = append([]byte{}, raw...)
	bad[3] |= 0x02
	if n, err := (&VLA{}).Unmarshal(bad); err == nil {
		t.Fatalf("non-zero #tl padding accepted (consumed %d)", n)
	} else if n > len(bad) {
		t.Fatalf("consumed %d of %d", n, len(bad))
	}
}
