package codecs

import (
	"bytes"
	"testing"
)

// A frame OBU is sent in three fragments. The packet with the middle fragment arrives damaged
// and is rejected. The last fragment must then not be appended to the first one.
func TestDemoAV1DepacketizerForgetsFragmentAfterRejectedPacket(t *testing.T) {
	d := &AV1Depacketizer{}

	// Y=1 W=1: frame OBU header 0x30 + first payload bytes
	out, err := d.Unmarshal([]byte{0x50, 0x30, 0xA1, 0xA2})
	if err != nil || len(out) != 0 {
		t.Fatalf("first fragment: % x, %v", out, err)
	}

	// Z=1 Y=1 W=0: the element length field is cut off -> rejected
	if _, err = d.Unmarshal([]byte{0xC0, 0xFF}); err == nil {
		t.Fatal("damaged packet must be rejected")
	}

	// Z=1 W=1: last fragment
	out, err = d.Unmarshal([]byte{0x90, 0xA5, 0xA6})
	if err != nil {
		t.Fatal(err)
	}
	if len(out) != 0 {
		t.Fatalf("an OBU with a hole in the middle was delivered: % x", out)
	}

	// the stream recovers with the next complete OBU
	out, err = d.Unmarshal([]byte{0x10, 0x30, 0xB1})
	if err != nil || !bytes.Equal(out, []byte{0x32, 0x01, 0xB1}) {
		t.Fatalf("next OBU: % x, %v", out, err)
	}
}
