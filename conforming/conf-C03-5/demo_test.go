package rtp

import (
	"bytes"
	"testing"
)

// A zero-value standalone view (one that never decoded a block) is usable: GetIDs reports
// no ids instead of panicking, and Set starts a fresh block of the view's profile.
func TestDemoZeroValueViewsAreUsable(t *testing.T) {
	run := func(name string, ext HeaderExtension, want []byte) {
		t.Run(name, func(t *testing.T) {
			defer func() {
				if r := recover(); r != nil {
					t.Fatalf("zero-value view panicked: %v", r)
				}
			}()
			if ids := ext.GetIDs(); len(ids) != 0 {
				t.Fatalf("ids of an empty view: %v", ids)
			}
			if err := ext.Set(3, []byte{0xAA, 0xBB}); err != nil {
				t.Fatalf("Set: %v", err)
			}
			if got := ext.Get(3); !bytes.Equal(got, []byte{0xAA, 0xBB}) {
				t.Fatalf("Get(3) = %x", got)
			}
			if ids := ext.GetIDs(); len(ids) != 1 || ids[0] != 3 {
				t.Fatalf("ids = %v", ids)
			}
			raw, err := ext.Marshal()
			if err != nil || !bytes.HasPrefix(raw, want) {
				t.Fatalf("Marshal = %x, %v; want prefix %x", raw, err, want)
			}
		})
	}
	run("one-byte", &OneByteHeaderExtension{}, []byte{0xBE, 0xDE, 0x00, 0x01, 0x31, 0xAA, 0xBB})
	run("two-byte", &TwoByteHeaderExtension{}, []byte{0x10, 0x00, 0x00, 0x01, 0x03, 0x02, 0xAA, 0xBB})
}

// Decoding a well-formed block is untouched.
func TestDemoViewsStillRoundTrip(t *testing.T) {
	block := []byte{0xBE, 0xDE, 0x00, 0x02, 0x10, 0xAA, 0x00, 0x21, 0xBB, 0xCC, 0x00, 0x00}
	ext := &OneByteHeaderExtension{}
	if _, err := ext.Unmarshal(block); err != nil {
		t.Fatal(err)
	}
	if ids := ext.GetIDs(); len(ids) != 2 || ids[0] != 1 || ids[1] != 2 {
		t.Fatalf("ids = %v", ids)
	}
	raw, _ := ext.Marshal()
	if !bytes.Equal(raw, block) {
		t.Fatalf("re-serialised %x", raw)
	}
}
