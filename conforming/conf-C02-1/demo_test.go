package rtp

import "testing"

// When Header.Unmarshal fails, the original code reports how far it got (12, 16, 17 ... - sometimes
// a position beyond the end of the input). With the change a failed Header.Unmarshal always reports
// n = 0.
func TestDemoHeaderUnmarshalReportsZeroOnError(t *testing.T) {
	inputs := map[string][]byte{
		// CC = 3 but no room for the CSRC list: the original reports n = 24 for an 12-octet input
		"truncated CSRC list": {0x83, 0x60, 0, 1, 0, 0, 0, 2, 0, 0, 0, 3},
		// X bit set, nothing after the fixed header
		"missing extension header": {0x90, 0x60, 0, 1, 0, 0, 0, 2, 0, 0, 0, 3},
		// extension length 2 words, only one present
		"truncated extension block": {0x90, 0x60, 0, 1, 0, 0, 0, 2, 0, 0, 0, 3, 0xBE, 0xDE, 0, 2, 0x10, 0xAA, 0, 0},
		// one-byte element of 16 octets in a 4-octet block
		"element overruns block": {0x90, 0x60, 0, 1, 0, 0, 0, 2, 0, 0, 0, 3, 0xBE, 0xDE, 0, 1, 0x1F, 0xAA, 0, 0},
	}
	for name, in := range inputs {
		var h Header
		n, err := h.Unmarshal(in)
		if err == nil {
			t.Fatalf("%s: accepted", name)
		}
		if n != 0 {
			t.Errorf("%s: failed Unmarshal reports n = %d (input length %d)", name, n, len(in))
		}
	}
}
