#!/bin/sh
# MANIFEST.setup_cmd — builds the framework from files on disk only (offline).
set -e
cd "$(dirname "$0")"
export GOFLAGS=-mod=mod GOPROXY=off GOSUMDB=off GOTOOLCHAIN=local CGO_ENABLED=0
mkdir -p .work evidence
(cd lean && lake build)
cp /repo/go.sum harness/go.sum
(cd harness && go build -tags verif -o ../.work/verifharness.setup . && go vet -tags verif . )
rm -f .work/verifharness.setup
echo setup-ok
